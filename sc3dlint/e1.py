"""E1 - container-invalidation typestate.

Rules (see DESIGN.md section 3, E1):
  ref-after-grow          a reference / pointer / iterator bound into a std::vector member of an
                          object is used on a path after a call that may grow (reallocate) that very
                          vector of that very object, without being re-bound in between.
  grow-while-iterating    a range-for over a vector whose body may grow that vector.
  shared-resize-in-parallel  inside an OpenMP parallel region a shared container is resized while
                          other accesses to it in the region are outside a critical section.

Object identity is syntactic (handle expression); containers are keyed by (handle, field).
"""
import re

from .model import (walk, strip, is_call, call_obj, call_args, render, short, children,
                    AnalysisBroken)

VEC_RE = re.compile(r"^(const )?std::vector<")
# operations that may reallocate / shift the storage of a vector
GROW_OPS = {"push_back", "emplace_back", "insert", "emplace", "resize", "reserve", "assign", "shrink_to_fit"}
SHRINK_OPS = {"erase", "clear", "pop_back", "operator=", "swap"}
ELEM_OPS = {"operator[]", "at", "back", "front"}
ITER_OPS = {"begin", "end", "cbegin", "cend", "rbegin", "rend", "data"}


def is_vector_type(t):
    return bool(t) and bool(VEC_RE.match(t))


def _is_ref_like(t):
    t = t.strip()
    return t.endswith("&") or t.endswith("*") or t.endswith("* const") or "__normal_iterator" in t or "_Bit_iterator" in t


def peel_handle(e):
    """Strip smart-pointer / pointer dereferences so that c, *c, c.get(), c-> denote one handle."""
    while True:
        e = strip(e)
        k = e.get("k")
        if k == "CXXOperatorCallExpr" and e.get("op") in ("->", "*") and len(e.get("c", [])) == 2:
            e = e["c"][1]
            continue
        if k == "UnaryOperator" and e.get("op") in ("*", "&"):
            e = e["c"][0]
            continue
        if k == "CXXMemberCallExpr" and e.get("callee", "").endswith("::get") and "shared_ptr" in e.get("callee", "") or \
           k == "CXXMemberCallExpr" and e.get("callee", "").endswith("::get") and "unique_ptr" in e.get("callee", ""):
            e = call_obj(e)
            continue
        if k in ("CXXConstCastExpr", "CXXStaticCastExpr") and e.get("c"):
            e = e["c"][0]
            continue
        return e


def handle_key(e):
    """Canonical text of an object designator; locals carry their declaration id."""
    e = peel_handle(e)
    k = e.get("k")
    if k == "CXXThisExpr":
        return "this"
    if k == "DeclRefExpr":
        r = e["ref"]
        if "qn" in r and r.get("dk") not in ("Var", "ParmVar"):
            return r["qn"]
        return "%s#%s" % (r["name"], r["did"])
    if k == "MemberExpr":
        base = e["c"][0] if e.get("c") else {"k": "CXXThisExpr"}
        return handle_key(base) + "." + e["ref"]["name"]
    if k == "CXXOperatorCallExpr" and e.get("op") == "[]" and len(e.get("c", [])) == 3:
        return handle_key(e["c"][1]) + "[" + render(e["c"][2]) + "]"
    if k == "ArraySubscriptExpr":
        return handle_key(e["c"][0]) + "[" + render(e["c"][1]) + "]"
    if k == "CXXMemberCallExpr":
        return handle_key(call_obj(e) or {"k": "?"}) + "." + e.get("callee", "?").split("::")[-1] + "(" + ",".join(render(a) for a in call_args(e)) + ")"
    return render(e)


class Summaries:
    """Interprocedural summaries over the resolved call graph, computed to a fixpoint:
       grows[key]   = set of (root, field_qn): root 'this' or ('param', i); field_qn '' = the root itself
       returns_elem[key] = (root, field_qn) if every return designates an element (or interior of an
                           element) of that vector; returns_cont[key] likewise for the container itself;
       returns_interior[key] = True if every return designates a sub-object of *this (n.pos()).
    """

    def __init__(self, prog, ops=None):
        self.p = prog
        self.ops = ops or (GROW_OPS | SHRINK_OPS)
        self.grows = {}
        self.returns_elem = {}
        self.returns_cont = {}
        self.returns_interior = {}
        self._params = {}
        self._compute()

    # -- classification of expressions inside function fn ---------------------------------
    def root_of(self, fn, e):
        """('this'|('param',i)|None, residual handle key) for a handle expression within fn."""
        e = peel_handle(e)
        k = e.get("k")
        if k == "CXXThisExpr":
            return "this"
        if k == "DeclRefExpr" and e["ref"].get("dk") == "ParmVar":
            for i, p in enumerate(fn.get("params", [])):
                if p["did"] == e["ref"]["did"]:
                    return ("param", i)
        return None

    def container_of(self, fn, e):
        """If e designates a vector (field of an object, or a vector-typed variable) return
        (handle expr or None, field_qn or '' , key string). Accessors returning a reference to a
        member vector are followed."""
        e = strip(e)
        k = e.get("k")
        if k == "MemberExpr" and e["ref"].get("dk") == "Field" and is_vector_type(e.get("t", "")):
            base = e["c"][0] if e.get("c") else {"k": "CXXThisExpr"}
            return (base, e["ref"]["qn"])
        if k == "DeclRefExpr" and is_vector_type(e.get("t", "")):
            return (e, "")
        if k == "CXXMemberCallExpr":
            for tk in self.p.call_targets(e):
                rc = self.returns_cont.get(tk)
                if rc and rc[0] == "this":
                    return (call_obj(e), rc[1])
        if k == "CXXOperatorCallExpr" and e.get("op") == "[]" and len(e.get("c", [])) == 3 and is_vector_type(e.get("t", "")):
            # an inner vector (vector<vector<T>>[i]) : distinct container per index; key by text
            return (e, "")
        return None

    def element_of(self, fn, e, bindings=None):
        """If e designates an element (or a sub-object / iterator / pointer into the storage) of a
        vector, return (handle expr, field_qn). bindings: {did: (handle_key, field_qn, handle expr)}
        for already-bound locals."""
        e = strip(e)
        k = e.get("k")
        if k == "UnaryOperator" and e.get("op") in ("&", "*") and e.get("c"):
            return self.element_of(fn, e["c"][0], bindings)
        if k == "CXXOperatorCallExpr" and e.get("op") in ("*", "->", "++", "--", "+", "-") and len(e.get("c", [])) >= 2 and not is_vector_type(e.get("t", "")):
            r = self.element_of(fn, e["c"][1], bindings)
            if r:
                return r
        if k == "CXXOperatorCallExpr" and e.get("op") == "[]" and len(e.get("c", [])) == 3:
            c = self.container_of(fn, e["c"][1])
            if c:
                return c
            return None
        if k == "ArraySubscriptExpr":
            return None
        if k == "CXXMemberCallExpr":
            name = e.get("callee", "").split("::")[-1]
            obj = call_obj(e)
            if obj is not None and e.get("callee", "").startswith("std::vector<") and (name in ("at", "back", "front", "emplace_back") or name in ITER_OPS):
                c = self.container_of(fn, obj)
                if c:
                    return c
            for tk in self.p.call_targets(e):
                re_ = self.returns_elem.get(tk)
                if re_:
                    if re_[0] == "this" and obj is not None:
                        return (obj, re_[1])
                    if isinstance(re_[0], tuple):
                        args = call_args(e)
                        if re_[0][1] < len(args):
                            c = self.container_of(fn, args[re_[0][1]])
                            if c and re_[1] == "":
                                return c
                            return (args[re_[0][1]], re_[1])
                if self.returns_interior.get(tk) and obj is not None:
                    return self.element_of(fn, obj, bindings)
            return None
        if k == "CallExpr" and e.get("callee") in ("std::find", "std::find_if", "std::min_element", "std::max_element", "std::lower_bound", "std::upper_bound"):
            args = call_args(e)
            if args:
                return self.element_of(fn, args[0], bindings)
        if k == "MemberExpr" and e["ref"].get("dk") == "Field" and e.get("c"):
            # sub-object of an element
            return self.element_of(fn, e["c"][0], bindings)
        if k == "DeclRefExpr" and bindings is not None:
            b = bindings.get(e["ref"]["did"])
            if b:
                return (b[2], b[1])
        if k == "ConditionalOperator":
            a = self.element_of(fn, e["c"][1], bindings)
            b = self.element_of(fn, e["c"][2], bindings)
            return a or b
        return None

    # -- direct effects of a call node within fn -------------------------------------------
    def call_grows(self, fn, call):
        """Containers (handle expr, field_qn) that this call may resize."""
        out = []
        k = call.get("k")
        callee = call.get("callee", "")
        name = callee.split("::")[-1]
        if k in ("CXXMemberCallExpr", "CXXOperatorCallExpr") and callee.startswith("std::vector<"):
            opname = name if k == "CXXMemberCallExpr" else "operator" + call.get("op", "")
            if opname in self.ops:
                obj = call_obj(call)
                if obj is not None:
                    c = self.container_of(fn, obj)
                    if c:
                        out.append(c)
            return out
        if k == "CallExpr" and callee in ("remove_index",):
            args = call_args(call)
            if args:
                c = self.container_of(fn, args[0])
                if c:
                    out.append(c)
        for tk in self.p.call_targets(call):
            for (root, field) in self.grows.get(tk, ()):
                if root == "this":
                    obj = call_obj(call)
                    if obj is None:
                        if k in ("CXXConstructExpr", "CXXTemporaryObjectExpr"):
                            continue
                        obj = {"k": "CXXThisExpr"}
                    out.append((obj, field))
                else:
                    args = call_args(call)
                    if root[1] < len(args):
                        a = args[root[1]]
                        if field == "":
                            c = self.container_of(fn, a)
                            if c:
                                out.append(c)
                        else:
                            out.append((a, field))
        return out

    def _compute(self):
        fns = self.p.repo_functions()
        # returns_* first (needed by container_of/element_of), iterate to a fixpoint
        for _ in range(6):
            changed = False
            for fn in fns:
                if not isinstance(fn.get("body"), dict):
                    continue
                ret = fn.get("ret", "")
                if not (ret.endswith("&") or ret.endswith("*") or "__normal_iterator" in ret):
                    continue
                key = fn["key"]
                rets = [n for n in walk(fn["body"], into_lambdas=False) if n.get("k") == "ReturnStmt" and isinstance(n.get("value"), dict)]
                if not rets:
                    continue
                elems, conts, interiors = [], [], []
                for r in rets:
                    v = r["value"]
                    c = self.container_of(fn, v)
                    if c and self.root_of(fn, c[0]) is not None and is_vector_type(strip(v).get("t", "")):
                        conts.append((self.root_of(fn, c[0]), c[1]))
                        continue
                    el = self.element_of(fn, v, self._local_bindings(fn))
                    if el and self.root_of(fn, el[0]) is not None:
                        elems.append((self.root_of(fn, el[0]), el[1]))
                        continue
                    sv = strip(v)
                    if sv.get("k") == "MemberExpr" and sv["ref"].get("dk") == "Field" and strip(sv["c"][0] if sv.get("c") else {"k": "CXXThisExpr"}).get("k") == "CXXThisExpr":
                        interiors.append(True)
                        continue
                    if sv.get("k") == "UnaryOperator" and sv.get("op") == "*" and strip(sv["c"][0]).get("k") == "CXXThisExpr":
                        interiors.append(True)
                        continue
                    elems.append(None)
                if conts and len(conts) == len(rets) and len(set(conts)) == 1:
                    if self.returns_cont.get(key) != conts[0]:
                        self.returns_cont[key] = conts[0]
                        changed = True
                elif elems and len(elems) == len(rets) and None not in elems and len(set(elems)) == 1:
                    if self.returns_elem.get(key) != elems[0]:
                        self.returns_elem[key] = elems[0]
                        changed = True
                elif interiors and len(interiors) == len(rets):
                    if not self.returns_interior.get(key):
                        self.returns_interior[key] = True
                        changed = True
            if not changed:
                break
        # grows: fixpoint
        for fn in fns:
            self.grows[fn["key"]] = set()
        for _ in range(30):
            changed = False
            for fn in fns:
                roots = [fn["body"]] if isinstance(fn.get("body"), dict) else []
                roots += [i["init"] for i in fn.get("inits", []) if isinstance(i.get("init"), dict)]
                cur = self.grows[fn["key"]]
                for r in roots:
                    for n in walk(r):
                        if not is_call(n):
                            continue
                        for (h, field) in self.call_grows(fn, n):
                            root = self.root_of(fn, h)
                            if root is None:
                                # a member vector of this reached as this->M where h is the MemberExpr itself
                                hh = strip(h)
                                if field == "" and hh.get("k") == "DeclRefExpr":
                                    continue  # local vector
                                continue
                            if fn.get("ctor") and root == "this":
                                continue  # growth during construction: nobody can hold a binding yet
                            item = (root, field)
                            if item not in cur:
                                cur.add(item)
                                changed = True
            if not changed:
                break

    def _local_bindings(self, fn):
        c = self._params.get(fn["key"])
        if c is None:
            c = compute_bindings(self, fn)
            self._params[fn["key"]] = c
        return c


def compute_bindings(S, fn):
    """{did: (handle_key, field_qn, handle expr, decl node)} for locals of reference / pointer /
    iterator type initialised from an element of a vector, in source order (so that later
    bindings can be derived from earlier ones: const vec3& p = n.pos())."""
    b = {}
    if not isinstance(fn.get("body"), dict):
        return b
    for n in walk(fn["body"]):
        k = n.get("k")
        if k == "CXXForRangeStmt":
            v = n["var"]
            if _is_ref_like(v.get("t", "")):
                c = S.container_of(fn, n["range"])
                if c:
                    b[v["did"]] = (handle_key(c[0]) if c[1] else handle_key(c[0]), c[1], c[0], v)
                else:
                    el = S.element_of(fn, n["range"], b)
                    # iterating over an inner container of an element (n.faces_): still interior
                    if el:
                        b[v["did"]] = (handle_key(el[0]), el[1], el[0], v)
            continue
        if k in ("Var",) and isinstance(n.get("init"), dict) and _is_ref_like(n.get("t", "")):
            init = strip(n["init"])
            if n.get("t", "").endswith("&") or "iterator" in n.get("t", "") or n.get("t", "").rstrip(" const").endswith("*"):
                el = S.element_of(fn, init, b)
                if el:
                    b[n["did"]] = (handle_key(el[0]), el[1], el[0], n)
        if k == "Decomposition" and isinstance(n.get("init"), dict) and n.get("t", "").endswith("&"):
            el = S.element_of(fn, n["init"], b)
            if el:
                for bd in n.get("bindings", []):
                    b[bd["did"]] = (handle_key(el[0]), el[1], el[0], n)
    return b


def _container_id(h, field):
    return (handle_key(h), field)


def ref_after_grow(S, prog, fn):
    """Yields dicts describing (binding, grow, use) triples, plus statistics."""
    fi = prog.index(fn)
    bindings = S._local_bindings(fn)
    stats = {"bindings": len(bindings), "grow_calls": 0, "pairs": 0}
    findings = []
    if not bindings:
        return stats, findings, []
    cfg = fi.cfg()
    # grow calls in this function (not inside nested lambdas: separate activation)
    grows = []
    for n in walk(fn["body"], into_lambdas=False):
        if is_call(n):
            for (h, field) in S.call_grows(fn, n):
                grows.append((n, _container_id(h, field)))
    stats["grow_calls"] = len(grows)
    if not grows:
        return stats, findings, []
    # uses of each bound variable and re-binding points
    uses = {}
    for n in walk(fn["body"], into_lambdas=False):
        if n.get("k") == "DeclRefExpr" and n["ref"]["did"] in bindings:
            uses.setdefault(n["ref"]["did"], []).append(n)
    checked = []
    for did, (hk, field, hexpr, decl) in bindings.items():
        cid = (hk, field)
        rel = [g for g in grows if g[1] == cid]
        if not rel:
            continue
        du = cfg.unit_of.get(id(decl))
        if du is None and decl.get("k") in ("Var", "Decomposition"):
            du = cfg.unit_of.get(id(decl))
        # range-for variables: the unit is the var node itself
        kill = set()
        if du is not None:
            kill.add(du)
        # assignments to a pointer/iterator variable re-bind it
        for u in uses.get(did, []):
            p, slot = fi.parent.get(id(u), (None, None))
            pp = p
            while pp is not None and pp.get("k") in ("ImplicitCastExpr", "ParenExpr"):
                pp, _ = fi.parent.get(id(pp), (None, None))
            if pp is not None and ((pp.get("k") == "BinaryOperator" and pp.get("op") == "=") or (pp.get("k") == "CXXOperatorCallExpr" and pp.get("op") == "=")):
                lhs = strip(pp["c"][0] if pp.get("k") == "BinaryOperator" else pp["c"][1])
                if lhs is u and not decl.get("t", "").endswith("&"):
                    ku = cfg.unit_of.get(id(u))
                    if ku is not None:
                        kill.add(ku)
        is_range_var = fi.parent.get(id(decl), (None, None))[1] == "var"
        for (g, _) in rel:
            gu = cfg.unit_of.get(id(g))
            if gu is None:
                continue
            stats["pairs"] += 1
            # must be after the binding: grow reachable from decl
            if du is not None and gu not in cfg.reach_from(du) :
                checked.append((did, g, "grow not after binding"))
                continue
            # reach from grow avoiding kill units
            seen = set()
            stack = [s for s in cfg.succ[gu]]
            while stack:
                x = stack.pop()
                if x in seen or x in kill:
                    continue
                seen.add(x)
                stack.extend(cfg.succ[x])
            bad = [u for u in uses.get(did, []) if cfg.unit_of.get(id(u)) in seen]
            if is_range_var:
                # the hidden iterator of the range-for is advanced on the back edge even if the
                # loop variable itself is not named again: growth inside the loop body is reported
                # by grow-while-iterating instead
                bad = [u for u in bad]
            if bad:
                bad.sort(key=lambda u: fi.order[id(u)])
                findings.append({"var": decl.get("name") or "<binding>", "did": did, "decl": decl, "grow": g,
                                 "container": cid, "use": bad[0], "uses": bad})
            else:
                checked.append((did, g, "no use after grow"))
    return stats, findings, checked


def grow_while_iterating(S, prog, fn):
    out = []
    loops = 0
    if not isinstance(fn.get("body"), dict):
        return loops, out
    for n in walk(fn["body"]):
        if n.get("k") != "CXXForRangeStmt":
            continue
        c = S.container_of(fn, n["range"])
        if not c:
            continue
        loops += 1
        cid = _container_id(*c)
        for m in walk(n["body"], into_lambdas=False):
            if is_call(m):
                for (h, field) in S.call_grows(fn, m):
                    if _container_id(h, field) == cid:
                        out.append({"loop": n, "grow": m, "container": cid})
    return loops, out


def omp_regions(fn):
    if not isinstance(fn.get("body"), dict):
        return
    for n in walk(fn["body"]):
        if "omp" in n and "parallel" in n["omp"]:
            yield n


def shared_resize_in_parallel(S, prog, fn):
    """In each parallel region: containers resized there; all other accesses must be inside a
    critical section (same name as the one around the resize)."""
    fi = prog.index(fn)
    out = []
    regions = 0
    for reg in omp_regions(fn):
        regions += 1
        body = reg.get("body")
        if not isinstance(body, dict):
            continue
        private = set()
        for cl in reg.get("clauses", []):
            if cl["kind"] in ("private", "firstprivate", "lastprivate", "reduction"):
                for v in cl.get("vars", []):
                    if "did" in v:
                        private.add(v["did"])
        declared_inside = {n["did"] for n in walk(body) if n.get("k") in ("Var", "Decomposition", "ParmVar") and "did" in n}
        for p in (x for x in walk(body) if x.get("k") == "LambdaExpr"):
            for q in p.get("params", []):
                declared_inside.add(q["did"])
        resized = {}
        for m in walk(body):
            if is_call(m):
                for (h, field) in S.call_grows(fn, m):
                    hs = peel_handle(h)
                    if field == "" and hs.get("k") == "DeclRefExpr":
                        did = hs["ref"]["did"]
                        if did in private or did in declared_inside:
                            continue
                        resized.setdefault(("var", did, hs["ref"]["name"]), []).append(m)
                    elif field and handle_key(h) == "this":
                        resized.setdefault(("field", field, field), []).append(m)
        for (kind, ident, name), sites in resized.items():
            def crit_name(x):
                for p, slot, ch in fi.ancestors(x):
                    if p is reg:
                        return None
                    if p.get("omp") == "critical":
                        return p.get("name", "") or "<unnamed>"
                return None
            crits = {crit_name(s) for s in sites}
            for acc in walk(body):
                hit = False
                if kind == "var" and acc.get("k") == "DeclRefExpr" and acc["ref"]["did"] == ident:
                    hit = True
                if kind == "field" and acc.get("k") == "MemberExpr" and acc["ref"].get("qn") == ident and handle_key(acc["c"][0] if acc.get("c") else {"k": "CXXThisExpr"}) == "this":
                    hit = True
                if not hit:
                    continue
                cn = crit_name(acc)
                unsynced_resize = None in crits
                if cn is None or cn not in crits or unsynced_resize:
                    # the resize site itself, if unsynchronised, is reported once
                    out.append({"region": reg, "container": name, "access": acc, "resize": sites[0],
                                "resize_unsynchronised": unsynced_resize})
    return regions, out
