"""Small repository-specific dataflow rules that several properties share."""
import re

from .model import walk, strip, is_call, call_obj, call_args, render, short

RECORD_VALUE = re.compile(r"^(const )?[\w:]+(<.*>)?$")


def lost_update_on_copy(prog, fn):
    """Range-for whose loop variable is a by-value copy of a class-type element, mutated in the body through a
    non-const member (or field assignment) while the copy is never handed on (returned / stored / passed):
    the mutation is lost.  Yields (loop, mutation node)."""
    if not isinstance(fn.get("body"), dict):
        return
    for n in walk(fn["body"]):
        if n.get("k") != "CXXForRangeStmt":
            continue
        v = n["var"]
        t = v.get("t", "")
        if t.endswith("&") or t.endswith("*") or t.startswith("const ") or "shared_ptr<" in t or "unique_ptr<" in t:
            continue
        cls = t.strip()
        if cls not in prog.records:
            continue
        muts, escapes = [], []
        for m in walk(n["body"]):
            k = m.get("k")
            if k == "CXXMemberCallExpr" and not m.get("cconst"):
                o = strip(call_obj(m) or {})
                if o.get("k") == "DeclRefExpr" and o["ref"]["did"] == v["did"]:
                    muts.append(m)
            elif k in ("BinaryOperator", "CompoundAssignOperator") and (m.get("op") == "=" or k == "CompoundAssignOperator"):
                b = strip(m["c"][0])
                while b.get("k") == "MemberExpr" and b.get("c"):
                    b = strip(b["c"][0])
                if b.get("k") == "DeclRefExpr" and b["ref"]["did"] == v["did"] and strip(m["c"][0]).get("k") == "MemberExpr":
                    muts.append(m)
            # does the copy escape (argument of a call, pushed into a container, returned, assigned from)?
            if is_call(m):
                for a in call_args(m):
                    sa = strip(a)
                    if sa.get("k") == "DeclRefExpr" and sa["ref"]["did"] == v["did"]:
                        escapes.append(m)
                    if sa.get("k") == "CXXConstructExpr" and sa.get("c") and strip(sa["c"][0]).get("k") == "DeclRefExpr" and strip(sa["c"][0])["ref"]["did"] == v["did"]:
                        escapes.append(m)
            if k == "ReturnStmt" and isinstance(m.get("value"), dict):
                if any(x.get("k") == "DeclRefExpr" and x["ref"]["did"] == v["did"] for x in walk(m["value"])):
                    escapes.append(m)
        if muts and not escapes:
            yield n, muts[0]


def lost_update_on_local_copy(prog, fn, classes=("node", "face")):
    """A local of class type (no reference, no pointer, not const) that is initialised as a copy of an element of a container / of
    another object, mutated through a non-const member call, and never handed on (passed, returned, assigned from, stored): the
    mutation is applied to a temporary.  Typical slip: `node& a = x[i], b = x[j];` - only `a` is a reference.
    Yields (Var, mutation node)."""
    if not isinstance(fn.get("body"), dict):
        return
    for v in walk(fn["body"]):
        if v.get("k") != "Var" or not isinstance(v.get("init"), dict) or v.get("inlined_param"):
            continue
        t = (v.get("t") or "").strip()
        if t not in classes:
            continue
        init = strip(v["init"])
        # a copy of an existing object: the initialiser is a copy construction from an lvalue (subscript / member / call returning a reference)
        src = init
        while src.get("k") in ("CXXConstructExpr", "ImplicitCastExpr", "MaterializeTemporaryExpr", "ExprWithCleanups") and len([c for c in src.get("c", []) if isinstance(c, dict)]) == 1:
            src = strip([c for c in src["c"] if isinstance(c, dict)][0])
        if src.get("k") not in ("CXXOperatorCallExpr", "ArraySubscriptExpr", "MemberExpr", "DeclRefExpr", "CXXMemberCallExpr", "UnaryOperator"):
            continue
        did = v.get("did")
        fi = prog.index(fn)
        muts = [m for m in walk(fn["body"]) if m.get("k") == "CXXMemberCallExpr" and not m.get("cconst") and strip(call_obj(m) or {}).get("k") == "DeclRefExpr" and (strip(call_obj(m)).get("ref") or {}).get("did") == did]
        # ... or handed to a repository function through a parameter that is a non-const reference (the callee changes the copy)
        for m in walk(fn["body"]):
            if not is_call(m) or not m.get("ckey"):
                continue
            g = prog.functions.get(m["ckey"])
            if g is None or not g.get("params"):
                continue
            for a_, p_ in zip(call_args(m), g["params"]):
                pt = (p_.get("t") or "").strip()
                sa = strip(a_)
                if sa.get("k") == "DeclRefExpr" and (sa.get("ref") or {}).get("did") == did and pt.endswith("&") and not pt.startswith("const ") and not pt.endswith("&&"):
                    muts.append(m)
        if not muts:
            continue
        first = min(fi.order[id(m)] for m in muts)
        # a copy declared outside a loop in which it is modified lives across the iterations: a mention anywhere in that loop may see
        # the state left by an earlier iteration
        v_loops = {id(l) for l, _s, _c in fi.ancestors(v) if l.get("k") in ("ForStmt", "WhileStmt", "CXXForRangeStmt", "DoStmt")}
        m_loops = [l for m in muts for l, _s, _c in fi.ancestors(m) if l.get("k") in ("ForStmt", "WhileStmt", "CXXForRangeStmt", "DoStmt") and id(l) not in v_loops]
        if m_loops:
            first = min(first, min(fi.order[id(l)] for l in m_loops))
        # is the modified copy observed afterwards?  any mention after the first mutation that is not itself the object of a
        # member call on the copy (a further mutation, or a const read whose result could carry the new state: counted as observed)
        observed = []
        for x in walk(fn["body"]):
            if x.get("k") == "DeclRefExpr" and (x.get("ref") or {}).get("did") == did and fi.order.get(id(x), -1) > first:
                p_ = fi.parent.get(id(x), (None, None))[0]
                while p_ is not None and p_.get("k") in ("ImplicitCastExpr", "ParenExpr"):
                    p_ = fi.parent.get(id(p_), (None, None))[0]
                gp = fi.parent.get(id(p_), (None, None))[0] if p_ is not None else None
                if p_ is not None and p_.get("k") == "MemberExpr" and gp is not None and gp.get("k") == "CXXMemberCallExpr" and not gp.get("cconst") and any(gp is m for m in muts):
                    continue        # the object of another mutation
                if any(any(y is x for y in walk(a_)) for m in muts if is_call(m) and m.get("k") != "CXXMemberCallExpr" or (is_call(m) and strip(call_obj(m) or {}) is not x) for a_ in call_args(m) if strip(a_) is x):
                    continue        # the argument of another mutating call
                observed.append(x)
        if not observed:
            yield v, muts[0]


def _only_read_through_const_member(e, did):
    """every mention of the variable inside e is the object of a const member call / a field read"""
    parents = {}
    for x in walk(e):
        for c in x.get("c", []) or []:
            if isinstance(c, dict):
                parents[id(c)] = x
    for x in walk(e):
        if x.get("k") == "DeclRefExpr" and (x.get("ref") or {}).get("did") == did:
            p = parents.get(id(x))
            while p is not None and p.get("k") in ("ImplicitCastExpr", "ParenExpr"):
                p = parents.get(id(p))
            if p is None or p.get("k") != "MemberExpr":
                return False
    return True


def _accumulates(stmt, did):
    """statement of the form V = V op e / V += e / V.translate(e) for variable did"""
    e = strip(stmt)
    k = e.get("k")
    if k == "CompoundAssignOperator":
        l = strip(e["c"][0])
        return l.get("k") == "DeclRefExpr" and l["ref"]["did"] == did
    if k in ("BinaryOperator", "CXXOperatorCallExpr") and e.get("op") == "=":
        l = strip(e["c"][0] if k == "BinaryOperator" else e["c"][1])
        r = e["c"][1] if k == "BinaryOperator" else e["c"][2]
        if l.get("k") == "DeclRefExpr" and l["ref"]["did"] == did:
            return any(x.get("k") == "DeclRefExpr" and x["ref"]["did"] == did for x in walk(r))
    if k == "CXXMemberCallExpr" and e.get("callee", "").split("::")[-1] in ("translate", "push_back", "insert", "emplace_back"):
        o = strip(call_obj(e) or {})
        return o.get("k") == "DeclRefExpr" and o["ref"]["did"] == did and e.get("callee", "").endswith("translate")
    return False


def _kills(stmt, did):
    """plain (re)initialisation of did that does not depend on its old value"""
    e = strip(stmt)
    k = e.get("k")
    if k in ("BinaryOperator", "CXXOperatorCallExpr") and e.get("op") == "=":
        l = strip(e["c"][0] if k == "BinaryOperator" else e["c"][1])
        r = e["c"][1] if k == "BinaryOperator" else e["c"][2]
        if l.get("k") == "DeclRefExpr" and l["ref"]["did"] == did:
            return not any(x.get("k") == "DeclRefExpr" and x["ref"]["did"] == did for x in walk(r))
    if k == "CXXMemberCallExpr" and e.get("callee", "").split("::")[-1] in ("reset", "clear"):
        o = strip(call_obj(e) or {})
        return o.get("k") == "DeclRefExpr" and o["ref"]["did"] == did
    return False


LOOPS = ("ForStmt", "WhileStmt", "CXXForRangeStmt", "DoStmt")


def stale_accumulator(prog, fn):
    """Variable declared OUTSIDE an outer loop, accumulated in an inner loop and consumed after the inner loop
    inside the outer loop's body, without being re-initialised in the outer body before the inner loop: the value
    of the previous outer iteration leaks into the next.  Yields (var decl, outer loop, inner loop, first use)."""
    if not isinstance(fn.get("body"), dict):
        return
    fi = prog.index(fn)
    decls = {n["did"]: n for n in walk(fn["body"]) if n.get("k") == "Var" and "did" in n}
    seen = set()
    for inner in walk(fn["body"]):
        if inner.get("k") not in LOOPS:
            continue
        outer = fi.enclosing(inner, LOOPS)
        if outer is None:
            continue
        body = inner.get("body")
        if not isinstance(body, dict):
            continue
        for s in walk(body):
            for did, d in decls.items():
                if (did, id(outer)) in seen:
                    continue
                if not _accumulates(s, did):
                    continue
                # declared outside the outer loop?
                if any(p is outer for p, sl, ch in fi.ancestors(d)):
                    continue
                # not declared inside fn before outer at all?  (must be visible: declared earlier)
                # consumed after the inner loop inside the outer body
                outer_body = outer.get("body")
                uses_after = [x for x in walk(outer_body) if x.get("k") == "DeclRefExpr" and x["ref"]["did"] == did
                              and fi.order[id(x)] > max(fi.order[id(y)] for y in walk(inner))]
                if not uses_after:
                    continue
                # killed in the outer body before the inner loop?
                killed = False
                for x in walk(outer_body):
                    if fi.order[id(x)] < fi.order[id(inner)] and x.get("k") in ("BinaryOperator", "CXXOperatorCallExpr", "CXXMemberCallExpr") and _kills(x, did):
                        if not any(p is inner for p, sl, ch in fi.ancestors(x)):
                            killed = True
                if killed:
                    continue
                seen.add((did, id(outer)))
                yield d, outer, inner, uses_after[0]


def _sentinel_class(e):
    """'plus' (+infinity, numeric_limits::max, DBL_MAX, HUGE_VAL), 'minus' (their negation, lowest), 'tiny'
    (numeric_limits::min / epsilon: smallest POSITIVE value), or None for anything else."""
    e = strip(e)
    neg = False
    while e.get("k") == "UnaryOperator" and e.get("op") in ("-", "+"):
        if e.get("op") == "-":
            neg = not neg
        e = strip(e["c"][0])
    if e.get("k") == "DeclRefExpr" and isinstance(e.get("ref"), dict) and e["ref"].get("dk") == "Var":
        return ("ref", e["ref"].get("did"), neg)
    txt = render(e).replace(" ", "")
    cls = None
    if re.search(r"numeric_limits<[\w ]+>::infinity\(\)|HUGE_VAL|\bINFINITY\b", txt):
        cls = "plus"
    elif re.search(r"numeric_limits<[\w ]+>::max\(\)|\b(DBL|FLT)_MAX\b", txt):
        cls = "plus"
    elif re.search(r"numeric_limits<[\w ]+>::lowest\(\)", txt):
        cls = "minus"
    elif re.search(r"numeric_limits<[\w ]+>::(min|epsilon|denorm_min)\(\)|\b(DBL|FLT)_MIN\b", txt):
        cls = "tiny"
    if cls is None:
        return None
    if neg:
        cls = {"plus": "minus", "minus": "plus", "tiny": "tiny"}[cls]
    return cls


def running_extrema(prog, fn):
    """Accumulators updated as 'if (e < X) X = e' / 'X = std::min(X, e)' (min) or the max forms, together with the
    sentinel they are initialised with earlier in the same function.  Yields (accumulator text, 'min'|'max',
    sentinel class or None, init node, update node)."""
    if not isinstance(fn.get("body"), dict):
        return
    fi = prog.index(fn)
    accs = []
    for n in walk(fn["body"]):
        if n.get("k") == "IfStmt" and not isinstance(n.get("else"), dict):
            c = strip(n["cond"])
            th = n["then"]
            stmts = th.get("c", []) if th.get("k") == "CompoundStmt" else [th]
            if c.get("k") == "BinaryOperator" and c.get("op") in ("<", ">", "<=", ">=") and len(stmts) == 1:
                a = strip(stmts[0])
                if a.get("k") == "BinaryOperator" and a.get("op") == "=":
                    X, e = render(a["c"][0]), render(a["c"][1])
                    l, r = render(c["c"][0]), render(c["c"][1])
                    if {l, r} == {X, e} and X != e:
                        less = c["op"].startswith("<")
                        kind = "min" if ((l == e) == less) else "max"
                        accs.append((X, kind, a, strip(a["c"][0])))
        if n.get("k") == "BinaryOperator" and n.get("op") == "=":
            rhs = strip(n["c"][1])
            if rhs.get("k") == "CallExpr" and rhs.get("callee", "").split("<")[0] in ("std::min", "std::max"):
                X = render(n["c"][0])
                if X in [render(a) for a in call_args(rhs)]:
                    accs.append((X, rhs["callee"].split("<")[0][5:], n, strip(n["c"][0])))
    seen = set()
    local_consts = {}
    for n in walk(fn["body"]):
        if n.get("k") == "Var" and isinstance(n.get("init"), dict):
            local_consts[n.get("did")] = n["init"]
    for X, kind, upd, lhs in accs:
        if (X, kind) in seen:
            continue
        seen.add((X, kind))
        init = None
        for n in fi.nodes:
            if fi.order[id(n)] >= fi.order[id(upd)]:
                break
            if n.get("k") == "BinaryOperator" and n.get("op") == "=" and render(n["c"][0]) == X and n is not upd:
                init = n["c"][1]
                node = n
            if n.get("k") == "Var" and lhs.get("k") == "DeclRefExpr" and n.get("did") == lhs["ref"].get("did") and isinstance(n.get("init"), dict):
                init = n["init"]
                node = n
        if init is None:
            continue
        cls = _sentinel_class(init)
        if isinstance(cls, tuple):      # a named constant: one level of indirection
            _, did, neg = cls
            cls = _sentinel_class(local_consts[did]) if did in local_consts else None
            if isinstance(cls, tuple):
                cls = None
            if cls and neg:
                cls = {"plus": "minus", "minus": "plus", "tiny": "tiny"}[cls]
        yield X, kind, cls, node, upd


SIZE_OF_MESH = re.compile(r"(get_node_lst\(\)|node_lst_|get_face_lst\(\)|face_lst_)\.size\(\)")


def stale_size_after_compaction(prog, fn):
    """A local initialised from the size of a cell's node/face list that is still used after a call that may compact that list
    (cell::rebase, directly or through callees): the stored size no longer describes the list.  Yields (var, compacting call,
    later use)."""
    if not isinstance(fn.get("body"), dict):
        return
    reb = [f["key"] for f in prog.fns("cell::rebase", required=False)]
    if not reb:
        return
    cache = prog.__dict__.setdefault("_may_rebase", {})

    def may_rebase(key):
        if key not in cache:
            cache[key] = bool(set(reb) & prog.closure([key]))
        return cache[key]
    fi = prog.index(fn)
    for v in fi.nodes:
        if v.get("k") != "Var" or not isinstance(v.get("init"), dict):
            continue
        if not SIZE_OF_MESH.search(render(v["init"]).replace(" ", "")):
            continue
        calls = [c for c in fi.nodes if is_call(c) and fi.order[id(c)] > fi.order[id(v)] and any(may_rebase(k) for k in prog.call_targets(c))]
        for c in calls:
            uses = [u for u in fi.nodes if u.get("k") == "DeclRefExpr" and isinstance(u.get("ref"), dict) and u["ref"].get("did") == v.get("did") and fi.order[id(u)] > fi.order[id(c)]]
            if uses:
                yield v, c, uses[0]
                break


SLOT_VECTORS = {"node_lst_": "nodes", "face_lst_": "faces"}
SLOT_GETTERS = {"get_node_lst": "nodes", "get_face_lst": "faces", "get_const_ref_node_lst": "nodes", "get_const_ref_face_lst": "faces"}
SLOT_ELEMENT_GETTERS = {"get_node": "nodes", "get_const_ref_node": "nodes", "get_face": "faces", "get_const_ref_face": "faces"}
LIVE_COUNTS = {"cell::get_nb_of_nodes": "nodes", "cell::get_nb_of_faces": "faces"}


def slot_loops(prog, fn):
    """Index loops over the slot vectors of a cell (node_lst_ / face_lst_ hold used and free slots; get_nb_of_nodes/faces is
    size() minus the free slots). A loop that visits the slots [0, live count) misses the used elements stored behind a free
    slot - correct only right after cell::rebase(). Yields (loop, kind, bound text, verdict, why) for every index loop whose
    variable subscripts a slot vector; verdict 'bad' when the bound is the live count and no rebase precedes the loop."""
    from .model import expand
    if not isinstance(fn.get("body"), dict):
        return
    fi = prog.index(fn)
    for l in walk(fn["body"]):
        if l.get("k") != "ForStmt" or not isinstance(l.get("init"), dict) or not isinstance(l.get("cond"), dict):
            continue
        decls = l["init"].get("decls") or []
        if len(decls) != 1 or decls[0].get("k") != "Var":
            continue
        did = decls[0]["did"]
        cond = strip(l["cond"])
        if cond.get("k") != "BinaryOperator" or cond.get("op") not in ("<", "<=", "!="):
            continue
        lhs = strip(cond["c"][0])
        if lhs.get("k") != "DeclRefExpr" or lhs["ref"].get("did") != did:
            continue
        kinds = set()
        for x in walk(l["body"] or {}):
            k = x.get("k")
            if k == "CXXOperatorCallExpr" and x.get("op") == "[]" and len(x.get("c", [])) >= 3:
                idx = strip(x["c"][2])
                if idx.get("k") == "DeclRefExpr" and idx["ref"].get("did") == did:
                    base = strip(x["c"][1])
                    if base.get("k") == "MemberExpr" and base["ref"].get("name") in SLOT_VECTORS:
                        kinds.add(SLOT_VECTORS[base["ref"]["name"]])
                    elif base.get("k") == "CXXMemberCallExpr" and base.get("callee", "").split("::")[-1] in SLOT_GETTERS:
                        kinds.add(SLOT_GETTERS[base["callee"].split("::")[-1]])
            elif k == "CXXMemberCallExpr" and x.get("callee", "").split("::")[-1] in SLOT_ELEMENT_GETTERS and x.get("callee", "").startswith("cell::"):
                a = call_args(x)
                if len(a) == 1 and strip(a[0]).get("k") == "DeclRefExpr" and strip(a[0])["ref"].get("did") == did:
                    kinds.add(SLOT_ELEMENT_GETTERS[x["callee"].split("::")[-1]])
        if not kinds:
            continue
        bound = expand(fn, cond["c"][1])
        live = {LIVE_COUNTS[c["callee"]] for c in walk(bound) if c.get("k") == "CXXMemberCallExpr" and c.get("callee") in LIVE_COUNTS}
        btxt = render(cond["c"][1])
        hit = kinds & live
        if not hit:
            yield l, sorted(kinds)[0], btxt, "ok", "bound %s is not the live count of the vector it indexes" % render(bound)[:80]
            continue
        # a preceding rebase in the same function makes live count == size
        rebased = False
        for c in walk(fn["body"]):
            if c.get("k") == "CXXMemberCallExpr" and c.get("callee", "").split("::")[-1] == "rebase" and fi.order[id(c)] < fi.order[id(l)]:
                rebased = True
        if rebased:
            yield l, sorted(hit)[0], btxt, "ok", "live count used as bound, but the cell was compacted (rebase) before the loop"
        else:
            yield l, sorted(hit)[0], btxt, "bad", ("the loop visits the slots [0, %s) of the %s vector, but %s counts the used %s only (size() minus the free slots): after an edge collapse "
                                                  "has freed a slot and before the next rebase, the used %s stored in the last slots are skipped" % (btxt, sorted(hit)[0], render(bound)[:60], sorted(hit)[0], sorted(hit)[0]))


def check_slot_loops(rep, prog, rule, cls_pred, min_alive=8):
    """Reports slot_loops() for the functions whose class satisfies cls_pred under `rule`. The lint must be alive: it has to
    recognise at least min_alive index loops over slot vectors in the whole program (11 on the reference tree)."""
    from .model import AnalysisBroken
    total = 0
    for fn in prog.repo_functions():
        for l, kind, btxt, verdict, why in slot_loops(prog, fn):
            total += 1
            if not cls_pred(fn.get("cls") or "", fn):
                continue
            if verdict == "ok":
                rep.ok(rule, prog, fn, l, "index loop over the %s slots bounded by %s: %s" % (kind, btxt, why))
            else:
                rep.violation(rule, prog, fn, l, "%s: slot loop bounded by the live count" % fn["qn"], "%s: %s" % (fn["qn"], why))
    if total < min_alive:
        raise AnalysisBroken("slot-loop lint recognises only %d index loops over node_lst_/face_lst_ in the whole program (expected >= %d)" % (total, min_alive))


def extremum_updates(fn):
    """Running-extremum updates of local/member variables, in any of the idioms
         if(c < m) m = c;      if(m > c) m = c;      m = std::min(m, c);      m = (c < m) ? c : m;
    (and the mirror images for maxima). Yields (statement node, target expression m, coordinate expression c, 'min'|'max')."""
    if not isinstance(fn.get("body"), dict):
        return
    def same(a, b):
        return render(strip(a)) == render(strip(b))
    for n in walk(fn["body"]):
        k = n.get("k")
        if k == "IfStmt" and n.get("else") is None:
            c = strip(n["cond"])
            th = n["then"]
            sts = th.get("c", []) if th.get("k") == "CompoundStmt" else [th]
            if c.get("k") == "BinaryOperator" and c.get("op") in ("<", ">", "<=", ">=") and len(sts) == 1:
                a = strip(sts[0])
                if a.get("k") in ("BinaryOperator", "CXXOperatorCallExpr") and a.get("op") == "=":
                    tgt, val = (a["c"][0], a["c"][1]) if a["k"] == "BinaryOperator" else (a["c"][1], a["c"][2])
                    l, r = c["c"][0], c["c"][1]
                    less = c["op"] in ("<", "<=")
                    if same(val, l) and same(tgt, r):
                        yield n, tgt, val, ("min" if less else "max")
                    elif same(val, r) and same(tgt, l):
                        yield n, tgt, val, ("max" if less else "min")
        elif k in ("BinaryOperator", "CXXOperatorCallExpr") and n.get("op") == "=":
            tgt, val = (n["c"][0], n["c"][1]) if k == "BinaryOperator" else (n["c"][1], n["c"][2])
            v = strip(val)
            if v.get("k") == "CallExpr" and v.get("callee") in ("std::min", "std::max") and len(call_args(v)) == 2:
                a, b = call_args(v)
                kind = v["callee"][-3:]
                if same(a, tgt):
                    yield n, tgt, b, kind
                elif same(b, tgt):
                    yield n, tgt, a, kind
            elif v.get("k") == "ConditionalOperator":
                c = strip(v["c"][0])
                if c.get("k") == "BinaryOperator" and c.get("op") in ("<", ">", "<=", ">="):
                    l, r = c["c"][0], c["c"][1]
                    t_, f_ = v["c"][1], v["c"][2]
                    less = c["op"] in ("<", "<=")
                    # (x < m) ? x : m   -> min ;  (x > m) ? x : m -> max
                    if same(f_, tgt) and same(t_, l) and same(r, tgt):
                        yield n, tgt, t_, ("min" if less else "max")
                    elif same(f_, tgt) and same(t_, r) and same(l, tgt):
                        yield n, tgt, t_, ("max" if less else "min")
