"""Interpretation of the Boolean / small-integer control logic of ONE function over a finite abstract domain.

Some decisions depend on their inputs only through a finite partition (the region of a coordinate relative to a box, the ranking
of three lengths, a sign and two type ids). A rule enumerates the partition, and for each class interprets the function's own
logic - declarations, assignments, if/else, conditional expressions, &&, ||, !, ==, !=, <, returns - with an `atom` callback that
gives the truth value of the leaf comparisons in that class. This is abstract interpretation over a finite domain chosen per
rule; it never evaluates the simulator's numerics. Anything it cannot interpret yields None (unknown) and the rule decides what an
unknown means (normally: not decided)."""
from .model import strip, call_args, call_obj


class Return(Exception):
    def __init__(self, v):
        self.v = v


class Unknown(Exception):
    pass


class Interp:
    def __init__(self, atom):
        self.atom = atom      # atom(expr_node, interp) -> value or NotImplemented
        self.env = {}

    def ev(self, e):
        e = strip(e)
        k = e.get("k")
        r = self.atom(e, self)
        if r is not NotImplemented:
            return r
        if k in ("ParenExpr", "ExprWithCleanups", "MaterializeTemporaryExpr", "CXXBindTemporaryExpr") or (k in ("ImplicitCastExpr", "CXXStaticCastExpr", "CXXFunctionalCastExpr", "CStyleCastExpr") and e.get("c")):
            return self.ev(e["c"][0])
        if k == "CXXConstructExpr" and len(e.get("c", [])) == 1:
            return self.ev(e["c"][0])
        if k == "IntegerLiteral":
            return int(e["v"])
        if k == "CXXBoolLiteralExpr":
            return bool(e["v"])
        if k == "DeclRefExpr":
            return self.env.get(e["ref"].get("did"))
        if k == "UnaryOperator" and e.get("op") == "!":
            v = self.ev(e["c"][0])
            return None if v is None else (not v)
        if k == "ConditionalOperator":
            c = self.ev(e["c"][0])
            return None if c is None else self.ev(e["c"][1] if c else e["c"][2])
        if k == "BinaryOperator":
            op = e.get("op")
            a, b = self.ev(e["c"][0]), (None if op in ("&&", "||") else self.ev(e["c"][1]))
            if op == "&&":
                if a is False:
                    return False
                b = self.ev(e["c"][1])
                return False if b is False else (None if a is None or b is None else True)
            if op == "||":
                if a is True:
                    return True
                b = self.ev(e["c"][1])
                return True if b is True else (None if a is None or b is None else False)
            if a is None or b is None:
                return None
            try:
                return {">": a > b, "<": a < b, ">=": a >= b, "<=": a <= b, "==": a == b, "!=": a != b, "+": a + b, "-": a - b}.get(op)
            except TypeError:
                return None
        return None

    def run(self, st):
        k = st.get("k")
        if k == "CompoundStmt":
            for c in st.get("c", []):
                self.run(c)
        elif k == "DeclStmt":
            for d in st.get("decls", []):
                if d.get("k") == "Var" and isinstance(d.get("init"), dict):
                    self.env[d["did"]] = self.ev(d["init"])
        elif k == "IfStmt":
            c = self.ev(st["cond"])
            if c is None:
                raise Unknown("condition at line %s" % st.get("l"))
            if c:
                self.run(st["then"])
            elif isinstance(st.get("else"), dict):
                self.run(st["else"])
        elif k == "ReturnStmt":
            raise Return(self.ev(st["value"]) if isinstance(st.get("value"), dict) else None)
        elif k in ("ForStmt", "WhileStmt", "DoStmt", "CXXForRangeStmt"):
            raise Unknown("loop at line %s" % st.get("l"))
        else:
            e = strip(st)
            if e.get("k") in ("BinaryOperator", "CXXOperatorCallExpr") and e.get("op") == "=":
                l = strip(e["c"][0] if e["k"] == "BinaryOperator" else e["c"][1])
                r = e["c"][1] if e["k"] == "BinaryOperator" else e["c"][2]
                if l.get("k") == "DeclRefExpr":
                    self.env[l["ref"]["did"]] = self.ev(r)

    def call(self, fn):
        """value returned by fn's body (None if unknown / falls off the end)"""
        try:
            self.run(fn["body"])
        except Return as r:
            return r.v
        return None
