"""Path enumeration over the structured AST of small functions.

A path is a list of events in evaluation order.  Events are ('call', node), ('assign', node), ('cond', node, polarity),
('return', node), ('throw', node).  if/else, the conditional operator's condition (not its arms), early returns and throws are
followed exactly; a loop body is taken zero times and once (the rules that use this module are about functions whose loops do not
carry the events of interest - they check that and give up otherwise).  The number of paths is capped; PathExplosion is raised
beyond the cap so that a rule never silently looks at a subset."""
from .model import walk, strip, is_call, children

LOOPS = ("ForStmt", "WhileStmt", "DoStmt", "CXXForRangeStmt")


class PathExplosion(Exception):
    pass


def _expr_events(e):
    """calls and assignments inside an expression / declaration, sub-expressions first (approximate evaluation order)."""
    out = []

    def rec(n):
        if not isinstance(n, dict):
            return
        if n.get("k") == "LambdaExpr":
            return
        for c in children(n):
            rec(c)
        if is_call(n):
            out.append(("call", n))
            if n.get("k") == "CXXOperatorCallExpr" and n.get("op") == "=":
                out.append(("assign", n))
        elif n.get("k") in ("BinaryOperator", "CompoundAssignOperator") and n.get("op", "").endswith("=") and n.get("op") not in ("==", "!=", "<=", ">="):
            out.append(("assign", n))
        elif n.get("k") == "CXXThrowExpr":
            out.append(("throw", n))
    rec(e)
    return out


def paths(stmt, cap=2048):
    """All paths through stmt as (events, terminated) pairs; terminated is True when the path ended in return/throw."""
    def seq(stmts):
        cur = [([], False)]
        for s in stmts:
            nxt = []
            for ev, done in cur:
                if done:
                    nxt.append((ev, True))
                    continue
                for ev2, done2 in one(s):
                    nxt.append((ev + ev2, done2))
            if len(nxt) > cap:
                raise PathExplosion("more than %d paths" % cap)
            cur = nxt
        return cur

    def one(s):
        k = s.get("k")
        if k == "CompoundStmt":
            return seq(s.get("c", []))
        if k == "IfStmt":
            pre = _expr_events(s["cond"])
            if isinstance(s.get("condvar"), dict):
                pre = _expr_events(s["condvar"]) + pre
            out = []
            for ev, d in one(s["then"]):
                out.append((pre + [("cond", s["cond"], True)] + ev, d))
            if isinstance(s.get("else"), dict):
                for ev, d in one(s["else"]):
                    out.append((pre + [("cond", s["cond"], False)] + ev, d))
            else:
                out.append((pre + [("cond", s["cond"], False)], False))
            return out
        if k in LOOPS:
            hdr = []
            for key in ("init", "range", "cond"):
                if isinstance(s.get(key), dict):
                    hdr += _expr_events(s[key])
            out = [(hdr + [("loop-skip", s)], False)]
            for ev, d in one(s["body"]):
                out.append((hdr + [("loop-enter", s)] + ev, d))
            return out
        if k == "ReturnStmt":
            ev = _expr_events(s.get("value")) if isinstance(s.get("value"), dict) else []
            return [(ev + [("return", s)], True)]
        if k == "CXXTryStmt":
            return one(s["block"])
        if k in ("BreakStmt", "ContinueStmt", "NullStmt"):
            return [([], False)]
        ev = _expr_events(s)
        if any(e[0] == "throw" for e in ev):
            return [(ev, True)]
        return [(ev, False)]
    return one(stmt)


def calls(events, callee=None, pred=None):
    out = []
    for e in events:
        if e[0] == "call" and (callee is None or e[1].get("callee") == callee or (callee.endswith("*") and e[1].get("callee", "").startswith(callee[:-1]))):
            if pred is None or pred(e[1]):
                out.append(e[1])
    return out
