"""Program model: loads the extractor's JSON, de-duplicates header functions, builds symbol
tables, class hierarchy, resolved call graph, and provides AST / structured-flow helpers.

All AST nodes are plain dicts as written by tools/sc3d-extract.cc.
"""
import json
import os
import re
import shutil
import time

from . import extract as X
from .extract import AnalysisBroken, REPO

# --------------------------------------------------------------------------------------
# generic tree helpers

_SUBKEYS = ("init", "cond", "inc", "body", "then", "else", "value", "sub", "block", "range",
            "default_arg", "source")

TRANSPARENT = {"ImplicitCastExpr", "ParenExpr", "MaterializeTemporaryExpr", "CXXBindTemporaryExpr",
               "ExprWithCleanups", "ConstantExpr", "SubstNonTypeTemplateParmExpr"}


def children(n):
    """All direct sub-nodes of n (statements, expressions, and variable declarations)."""
    k = n.get("k")
    out = []
    if k == "CXXForRangeStmt":
        out.append(n["var"])  # VarDecl (init is the implicit '*__begin'; range holds the container)
        out.append(n["range"])
        out.append(n["body"])
        return out
    if "condvar" in n:
        out.append(n["condvar"])
    if k == "DeclStmt":
        out.extend(n.get("decls", []))
        return out
    if k in ("Var", "Decomposition", "ParmVar"):
        if isinstance(n.get("init"), dict):
            out.append(n["init"])
        return out
    for key in _SUBKEYS:
        v = n.get(key)
        if isinstance(v, dict):
            out.append(v)
    if k == "CXXTryStmt":
        out.extend(n.get("handlers", []))
    out.extend(n.get("c", []))
    return out


def walk(n, into_lambdas=True):
    """Pre-order traversal."""
    stack = [n]
    while stack:
        x = stack.pop()
        yield x
        if x.get("k") == "LambdaExpr" and not into_lambdas and x is not n:
            continue
        ch = children(x)
        stack.extend(reversed(ch))


def strip(e):
    """Peel wrappers that do not change the denoted object/value."""
    while True:
        k = e.get("k")
        if k in TRANSPARENT and e.get("c"):
            e = e["c"][0]
            continue
        if k == "CXXConstructExpr" and (e.get("copy") or e.get("move")) and e.get("elidable") and e.get("c"):
            e = e["c"][0]
            continue
        if k == "CXXFunctionalCastExpr" and e.get("ck") in ("NoOp", "ConstructorConversion") and e.get("c"):
            e = e["c"][0]
            continue
        return e


def flat_stmts(block):
    """statements of a block, with blocks produced by inlining a local lambda (normalize.py) flattened in place"""
    for s in block.get("c", []):
        if s.get("k") == "CompoundStmt" and s.get("inlined_lambda"):
            for x in flat_stmts(s):
                yield x
        else:
            yield s


def def_chain(fn, e, depth=4):
    """e and, transitively, the initialisers of the local variables it mentions (single-definition locals only)."""
    seen = set()
    todo = [(e, 0)]
    inits = None
    while todo:
        x, d = todo.pop(0)
        yield x
        if d >= depth:
            continue
        for y in walk(x):
            if y.get("k") == "DeclRefExpr" and isinstance(y.get("ref"), dict) and y["ref"].get("dk") in ("Var", "Binding") and y["ref"].get("did") not in seen:
                seen.add(y["ref"]["did"])
                if inits is None:
                    inits = {}
                    for v in walk(fn["body"]):
                        if v.get("k") == "Var" and isinstance(v.get("init"), dict):
                            inits.setdefault(v.get("did"), []).append(v["init"])
                        if v.get("k") == "Decomposition" and isinstance(v.get("init"), dict):
                            for b in v.get("bindings", []):
                                inits.setdefault(b.get("did"), []).append(v["init"])
                for i in inits.get(y["ref"]["did"], []):
                    todo.append((i, d + 1))


_SCALAR = re.compile(r"^(const )?(unsigned |signed |long |short )*(int|long|short|char|bool|double|float|size_t|std::size_t|unsigned|unsigned int|unsigned short|unsigned long|std::string::size_type|auto)( const)?$")


def _value_like(t):
    """types whose variables cannot change behind the analysis' back: const-qualified objects and plain scalars"""
    t = t.strip()
    if t.endswith("&") or t.endswith("*"):
        return t.startswith("const ") and t.endswith("&")
    return t.startswith("const ") or bool(_SCALAR.match(t))


def stable_locals(fn):
    """did -> initialiser of the local variables of fn that are initialised at their declaration and never written again
    (no assignment, compound assignment, ++/--): their name is an abbreviation of the initialiser."""
    cache = fn.get("_stable_locals")
    if cache is not None:
        return cache
    inits, written = {}, set()
    body = fn.get("body") or {}
    for n in walk(body):
        k = n.get("k")
        if k == "Var" and isinstance(n.get("init"), dict) and n.get("did") is not None:
            if n["did"] in inits:
                written.add(n["did"])
            inits[n["did"]] = n["init"]
        tgt = None
        if k in ("BinaryOperator", "CompoundAssignOperator") and n.get("op", "").endswith("=") and n.get("op") not in ("==", "!=", "<=", ">="):
            tgt = strip(n["c"][0])
        elif k == "CXXOperatorCallExpr" and n.get("op", "").endswith("=") and n.get("op") not in ("==", "!=", "<=", ">=") and len(n.get("c", [])) >= 2:
            tgt = strip(n["c"][1])
        elif k == "UnaryOperator" and n.get("op", "").replace("post", "").replace("pre", "") in ("++", "--"):
            tgt = strip(n["c"][0])
        if tgt is not None and tgt.get("k") == "DeclRefExpr" and isinstance(tgt.get("ref"), dict):
            written.add(tgt["ref"].get("did"))
        if k == "CXXForRangeStmt" and isinstance(n.get("var"), dict):
            written.add(n["var"].get("did"))
        if k == "Var" and n.get("did") is not None and not _value_like(n.get("t", "")):
            written.add(n["did"])
        if k in ("ForStmt",) and isinstance(n.get("init"), dict):
            for d in n["init"].get("decls", []) if n["init"].get("k") == "DeclStmt" else []:
                if isinstance(d, dict):
                    written.add(d.get("did"))
    out = {d: i for d, i in inits.items() if d not in written}
    fn["_stable_locals"] = out
    return out


def expand(fn, e, depth=5):
    """copy of e in which every stable local (see stable_locals) is replaced by its initialiser, recursively"""
    import copy as _copy
    st = stable_locals(fn)

    def rec(n, d):
        if n.get("k") == "DeclRefExpr" and isinstance(n.get("ref"), dict) and n["ref"].get("dk") == "Var" and n["ref"].get("did") in st and d < depth:
            init = strip(st[n["ref"]["did"]])
            if init.get("k") != "LambdaExpr":
                r = rec(_copy.deepcopy(init), d + 1)
                if strip(r).get("k") in ("DeclRefExpr", "MemberExpr", "IntegerLiteral", "FloatingLiteral", "CXXMemberCallExpr", "StringLiteral"):
                    return r
                return {"k": "ParenExpr", "t": n.get("t"), "l": n.get("l"), "c": [r]}
        for key in _SUBKEYS:
            if isinstance(n.get(key), dict):
                n[key] = rec(n[key], d)
        if isinstance(n.get("c"), list):
            n["c"] = [rec(x, d) if isinstance(x, dict) else x for x in n["c"]]
        return n
    return rec(_copy.deepcopy(e), 0)


def expand_text(fn, e, depth=5):
    return render(expand(fn, e, depth)).replace(" ", "")


def facts_at(fn, fi, node, stop_at=None):
    """Atomic conditions known to hold (True) or not to hold (False) when node executes: the dominating guards (FuncIndex.guards)
    with stable locals replaced by their initialisers, negations pushed inwards, and conjunctions that hold / disjunctions that do
    not hold split into their operands.  A disjunction that holds (or a conjunction that does not) states no atomic fact."""
    out = []

    def split(e, pol):
        e = strip(e)
        while e.get("k") == "ParenExpr" and e.get("c"):
            e = strip(e["c"][0])
        if e.get("k") == "UnaryOperator" and e.get("op") == "!" and e.get("c"):
            split(e["c"][0], not pol)
        elif e.get("k") == "BinaryOperator" and e.get("op") in ("&&", "||") and len(e.get("c", [])) == 2:
            if (e["op"] == "&&") == pol:
                split(e["c"][0], pol)
                split(e["c"][1], pol)
        elif e.get("k") == "ConditionalOperator" and len(e.get("c", [])) == 3 and strip(e["c"][2]).get("k") == "CXXBoolLiteralExpr" and not strip(e["c"][2]).get("v"):
            # x ? y : false  ==  x && y
            if pol:
                split(e["c"][0], True)
                split(e["c"][1], True)
        elif e.get("k") == "ConditionalOperator" and len(e.get("c", [])) == 3 and strip(e["c"][1]).get("k") == "CXXBoolLiteralExpr" and strip(e["c"][1]).get("v"):
            # x ? true : y  ==  x || y
            if not pol:
                split(e["c"][0], False)
                split(e["c"][2], False)
        else:
            out.append((e, pol))
    for cond, pol in fi.guards(node, stop_at=stop_at):
        split(expand(fn, cond), pol)
    # a node under a `case` of a switch runs under a condition that is not modelled: say so with a pseudo atom, so that rules that
    # require "no other condition" or look for a dominating test can answer *not decided* instead of guessing
    for p, slot, ch in fi.ancestors(node):
        if stop_at is not None and p is stop_at:
            break
        if p.get("k") == "SwitchStmt" and slot == "body":
            out.append(({"k": "<switch-case>", "l": p.get("l"), "c": []}, True))
        if p.get("k") == "LambdaExpr":
            break
    return out


def is_call(n):
    return n.get("k") in ("CallExpr", "CXXMemberCallExpr", "CXXOperatorCallExpr", "CXXConstructExpr",
                          "CXXTemporaryObjectExpr")


def call_obj(n):
    """Implicit object expression of a member call (None for free functions / ctors)."""
    k = n.get("k")
    if k == "CXXMemberCallExpr":
        me = strip(n["c"][0])
        if me.get("k") == "MemberExpr" and me.get("c"):
            return me["c"][0]
        return None
    if k == "CXXOperatorCallExpr" and n.get("cmember") and len(n.get("c", [])) > 1:
        return n["c"][1]
    return None


def call_args(n):
    k = n.get("k")
    c = n.get("c", [])
    if k == "CXXMemberCallExpr" or k == "CallExpr":
        return c[1:]
    if k == "CXXOperatorCallExpr":
        return c[2:] if n.get("cmember") else c[1:]
    return c  # constructors


def callee_name(n):
    return n.get("callee", "")


def short(n, limit=160):
    """Readable rendering of an expression for reports."""
    s = render(n)
    return s if len(s) <= limit else s[:limit - 3] + "..."


def render(n):
    n = strip(n)
    k = n.get("k")
    if k == "DeclRefExpr":
        return n["ref"].get("qn") or n["ref"]["name"]
    if k == "MemberExpr":
        if not n.get("c"):
            return n["ref"]["name"]
        b = strip(n["c"][0])
        if b.get("k") == "CXXThisExpr":
            return n["ref"]["name"]
        return render(b) + ("->" if n.get("arrow") else ".") + n["ref"]["name"]
    if k == "CXXThisExpr":
        return "this"
    if k in ("IntegerLiteral", "FloatingLiteral"):
        return str(n.get("v"))
    if k == "StringLiteral":
        return json.dumps(n.get("v", ""))
    if k == "CXXBoolLiteralExpr":
        return "true" if n.get("v") else "false"
    if k in ("BinaryOperator", "CompoundAssignOperator"):
        return "(" + render(n["c"][0]) + " " + n["op"] + " " + render(n["c"][1]) + ")"
    if k == "UnaryOperator":
        return (render(n["c"][0]) + n["op"]) if n.get("postfix") else (n["op"] + render(n["c"][0]))
    if k == "CXXMemberCallExpr":
        return render(n["c"][0]) + "(" + ", ".join(render(a) for a in call_args(n)) + ")"
    if k == "CXXOperatorCallExpr":
        c = n["c"]
        op = n.get("op", "?")
        if op == "[]" and len(c) == 3:
            return render(c[1]) + "[" + render(c[2]) + "]"
        if op == "()" :
            return render(c[1]) + "(" + ", ".join(render(a) for a in c[2:]) + ")"
        if len(c) == 3:
            return "(" + render(c[1]) + " " + op + " " + render(c[2]) + ")"
        if len(c) == 2:
            if op == "->":
                return render(c[1])
            return op + render(c[1])
        return op + "(...)"
    if k == "CallExpr":
        return (n.get("callee") or render(n["c"][0])) + "(" + ", ".join(render(a) for a in call_args(n)) + ")"
    if k in ("CXXConstructExpr", "CXXTemporaryObjectExpr"):
        return n.get("cls", "?") + "{" + ", ".join(render(a) for a in n.get("c", [])) + "}"
    if k == "ArraySubscriptExpr":
        return render(n["c"][0]) + "[" + render(n["c"][1]) + "]"
    if k == "ConditionalOperator":
        return "(" + render(n["c"][0]) + " ? " + render(n["c"][1]) + " : " + render(n["c"][2]) + ")"
    if k in ("CStyleCastExpr", "CXXStaticCastExpr", "CXXFunctionalCastExpr", "CXXReinterpretCastExpr", "CXXConstCastExpr", "CXXDynamicCastExpr"):
        return "(" + n.get("t", "?") + ")" + (render(n["c"][0]) if n.get("c") else "")
    if k == "LambdaExpr":
        return "[lambda@%s]" % n.get("l")
    if k == "InitListExpr":
        return "{" + ", ".join(render(a) for a in n.get("c", [])) + "}"
    if k == "CXXDefaultArgExpr":
        return render(n["default_arg"]) if "default_arg" in n else "<default>"
    if k == "CXXThrowExpr":
        return "throw " + (render(n["c"][0]) if n.get("c") else "")
    if k == "CXXNewExpr":
        return "new " + n.get("alloc_t", "?")
    return "<" + str(k) + ">"


# --------------------------------------------------------------------------------------
# function-level index: parents, statement order, structured control flow

EXIT_KINDS = ("ReturnStmt", "CXXThrowExpr", "BreakStmt", "ContinueStmt")
LOOP_KINDS = ("ForStmt", "WhileStmt", "DoStmt", "CXXForRangeStmt")


class FuncIndex:
    """Per-function derived information (built lazily)."""

    def __init__(self, fn):
        self.fn = fn
        self.parent = {}   # id(node) -> (parent node, slot name)
        self.order = {}    # id(node) -> preorder index
        self.nodes = []
        self._build()
        self._cfg = None

    def _build(self):
        body = self.fn.get("body")
        roots = []
        for i in self.fn.get("inits", []):
            if isinstance(i.get("init"), dict):
                roots.append(i["init"])
        if isinstance(body, dict):
            roots.append(body)
        idx = 0
        for r in roots:
            stack = [(r, None, None)]
            while stack:
                n, p, slot = stack.pop()
                self.parent[id(n)] = (p, slot)
                self.order[id(n)] = idx
                idx += 1
                self.nodes.append(n)
                ch = _children_with_slots(n)
                for c, s in reversed(ch):
                    stack.append((c, n, s))

    def ancestors(self, n):
        """Yields (ancestor, slot_of_child_in_ancestor, child) from the parent upwards."""
        cur = n
        while True:
            p, slot = self.parent.get(id(cur), (None, None))
            if p is None:
                return
            yield p, slot, cur
            cur = p

    def enclosing(self, n, kinds):
        for p, slot, ch in self.ancestors(n):
            if p.get("k") in kinds:
                return p
        return None

    def in_lambda(self, n):
        return self.enclosing(n, ("LambdaExpr",))

    # ---- guards: conditions known to hold when n executes --------------------------
    def guards(self, n, stop_at=None, through_lambdas=False):
        """List of (condition expr, polarity) that structurally dominate n:
        enclosing if/loop conditions plus preceding 'if(c) <always exits>' statements in
        enclosing statement sequences."""
        out = []
        for p, slot, ch in self.ancestors(n):
            if stop_at is not None and p is stop_at:
                break
            k = p.get("k")
            if k == "IfStmt":
                if slot == "then":
                    out.append((p["cond"], True))
                elif slot == "else":
                    out.append((p["cond"], False))
            elif k in ("ForStmt", "WhileStmt"):
                if slot in ("body", "inc") and isinstance(p.get("cond"), dict):
                    out.append((p["cond"], True))
            elif k == "ConditionalOperator":
                i = _child_index(p, ch)
                if i == 1:
                    out.append((p["c"][0], True))
                elif i == 2:
                    out.append((p["c"][0], False))
            elif k == "BinaryOperator" and p.get("op") in ("&&", "||"):
                i = _child_index(p, ch)
                if i == 1:
                    out.append((p["c"][0], p["op"] == "&&"))
            elif k == "CompoundStmt":
                i = _child_index(p, ch)
                for prev in p.get("c", [])[:i]:
                    if prev.get("k") == "IfStmt":
                        if always_exits(prev["then"]) and not (isinstance(prev.get("else"), dict) and always_exits(prev["else"])):
                            out.append((prev["cond"], False))
                        elif isinstance(prev.get("else"), dict) and always_exits(prev["else"]) and not always_exits(prev["then"]):
                            out.append((prev["cond"], True))
            if k == "LambdaExpr" and not through_lambdas:
                break
        return out

    # ---- CFG over evaluation units --------------------------------------------------
    def cfg(self):
        if self._cfg is None:
            self._cfg = CFG(self)
        return self._cfg


def _child_index(p, ch):
    for i, c in enumerate(p.get("c", [])):
        if c is ch:
            return i
    return -1


def _children_with_slots(n):
    k = n.get("k")
    out = []
    if k == "CXXForRangeStmt":
        return [(n["range"], "range"), (n["var"], "var"), (n["body"], "body")]
    if "condvar" in n:
        out.append((n["condvar"], "condvar"))
    if k == "DeclStmt":
        return [(d, "decl") for d in n.get("decls", [])]
    if k in ("Var", "Decomposition", "ParmVar"):
        if isinstance(n.get("init"), dict):
            out.append((n["init"], "init"))
        return out
    for key in _SUBKEYS:
        v = n.get(key)
        if isinstance(v, dict):
            out.append((v, key))
    if k == "CXXTryStmt":
        out.extend((h, "handler") for h in n.get("handlers", []))
    out.extend((c, "c") for c in n.get("c", []))
    return out


def always_exits(s):
    """True if control never falls out of the end of statement s (structurally)."""
    if not isinstance(s, dict):
        return False
    k = s.get("k")
    if k in ("ReturnStmt", "BreakStmt", "ContinueStmt"):
        return True
    if k == "CXXThrowExpr":
        return True
    if k in TRANSPARENT and s.get("c"):
        return always_exits(s["c"][0])
    if k == "CompoundStmt":
        return any(always_exits(c) for c in s.get("c", []))
    if k == "IfStmt":
        return always_exits(s["then"]) and isinstance(s.get("else"), dict) and always_exits(s["else"])
    if k == "CallExpr" and s.get("callee") in ("std::terminate", "abort", "exit", "std::abort", "std::exit"):
        return True
    return False


class CFG:
    """Control-flow graph over *evaluation units* of one function body (lambdas excluded: a
    lambda body is a separate function value).  A unit is a full expression, a variable
    declaration, or a control node.  Built from the structured AST (the product code has no
    goto).  Exceptions: every unit inside a try block may transfer to each of its handlers."""

    def __init__(self, fi):
        self.fi = fi
        self.units = []       # AST node per unit
        self.succ = []        # list of sets
        self.unit_of = {}     # id(ast node) -> unit index (for every node inside the unit)
        self.exit = self._new({"k": "<exit>"})
        body = fi.fn.get("body")
        entry = self.exit
        if isinstance(body, dict):
            entry = self._stmt(body, self.exit, None, None, [])
        # constructor initialisers run before the body, in order
        for i in reversed(fi.fn.get("inits", [])):
            if isinstance(i.get("init"), dict):
                entry = self._unit(i["init"], entry, [])
        self.entry = entry
        self._reach = {}

    def _new(self, node):
        self.units.append(node)
        self.succ.append(set())
        return len(self.units) - 1

    def _unit(self, node, nxt, handlers):
        u = self._new(node)
        for x in walk(node, into_lambdas=False):
            self.unit_of.setdefault(id(x), u)
        self.succ[u].add(nxt)
        for h in handlers:
            self.succ[u].add(h)
        return u

    def _stmt(self, s, nxt, brk, cont, handlers):
        """Returns the entry unit of statement s whose normal successor is nxt."""
        k = s.get("k")
        if k == "CompoundStmt":
            cur = nxt
            for c in reversed(s.get("c", [])):
                cur = self._stmt(c, cur, brk, cont, handlers)
            return cur
        if k == "IfStmt":
            t = self._stmt(s["then"], nxt, brk, cont, handlers)
            e = self._stmt(s["else"], nxt, brk, cont, handlers) if isinstance(s.get("else"), dict) else nxt
            u = self._unit(s["cond"], t, handlers)
            self.succ[u].add(e)
            if "condvar" in s:
                u = self._unit(s["condvar"], u, handlers)
            if isinstance(s.get("init"), dict):
                u = self._stmt(s["init"], u, brk, cont, handlers)
            return u
        if k in ("ForStmt", "WhileStmt"):
            head = self._new({"k": "<loop-head>", "l": s.get("l")})
            inc = head
            if isinstance(s.get("inc"), dict):
                inc = self._unit(s["inc"], head, handlers)
            body = self._stmt(s["body"], inc, nxt, inc, handlers)
            if isinstance(s.get("cond"), dict):
                c = self._unit(s["cond"], body, handlers)
                self.succ[c].add(nxt)
                self.succ[head].add(c)
            else:
                self.succ[head].add(body)
            entry = head
            if isinstance(s.get("init"), dict):
                entry = self._stmt(s["init"], head, brk, cont, handlers)
            return entry
        if k == "DoStmt":
            head = self._new({"k": "<loop-head>", "l": s.get("l")})
            c = self._unit(s["cond"], head, handlers)
            self.succ[c].add(nxt)
            body = self._stmt(s["body"], c, nxt, c, handlers)
            self.succ[head].add(body)
            return head
        if k == "CXXForRangeStmt":
            head = self._new({"k": "<loop-head>", "l": s.get("l")})
            body = self._stmt(s["body"], head, nxt, head, handlers)
            v = self._unit(s["var"], body, handlers)
            self.succ[head].add(v)
            self.succ[head].add(nxt)
            return self._unit(s["range"], head, handlers)
        if k == "SwitchStmt":
            # every case label is a possible entry; fallthrough by sequence order
            c = self._unit(s["cond"], nxt, handlers)
            body = s["body"]
            stmts = body.get("c", []) if body.get("k") == "CompoundStmt" else [body]
            cur = nxt
            has_default = False
            for st in reversed(stmts):
                inner = st
                labels = []
                while inner.get("k") in ("CaseStmt", "DefaultStmt"):
                    labels.append(inner)
                    if inner.get("k") == "DefaultStmt":
                        has_default = True
                    inner = inner["sub"]
                cur = self._stmt(inner, cur, nxt, cont, handlers)
                if labels:
                    self.succ[c].add(cur)
            if has_default:
                self.succ[c].discard(nxt)
            return c
        if k in ("CaseStmt", "DefaultStmt"):
            return self._stmt(s["sub"], nxt, brk, cont, handlers)
        if k == "ReturnStmt":
            if isinstance(s.get("value"), dict):
                u = self._unit(s, self.exit, handlers)
                self.succ[u].discard(nxt)
                self.succ[u].add(self.exit)
                return u
            u = self._new(s)
            self.unit_of[id(s)] = u
            self.succ[u].add(self.exit)
            return u
        if k == "BreakStmt":
            u = self._new(s)
            self.unit_of[id(s)] = u
            self.succ[u].add(brk if brk is not None else self.exit)
            return u
        if k == "ContinueStmt":
            u = self._new(s)
            self.unit_of[id(s)] = u
            self.succ[u].add(cont if cont is not None else self.exit)
            return u
        if k == "CXXTryStmt":
            hs = [self._stmt(h["body"], nxt, brk, cont, handlers) for h in s.get("handlers", [])]
            return self._stmt(s["block"], nxt, brk, cont, handlers + hs)
        if k == "DeclStmt":
            cur = nxt
            for d in reversed(s.get("decls", [])):
                if d.get("k") in ("Var", "Decomposition"):
                    cur = self._unit(d, cur, handlers)
            return cur
        if k == "NullStmt":
            return nxt
        if "omp" in s or k == "CapturedStmt":
            if isinstance(s.get("body"), dict):
                # a parallel/for/critical/atomic region executes its body in place
                return self._stmt(s["body"], nxt, brk, cont, handlers)
            u = self._new(s)  # stand-alone directive (barrier, ...)
            self.unit_of[id(s)] = u
            self.succ[u].add(nxt)
            return u
        if k == "AttributedStmt" and s.get("c"):
            return self._stmt(s["c"][-1], nxt, brk, cont, handlers)
        if k == "LabelStmt" and s.get("c"):
            return self._stmt(s["c"][-1], nxt, brk, cont, handlers)
        # expression statement
        u = self._unit(s, nxt, handlers)
        e = strip(s)
        if e.get("k") == "CXXThrowExpr" or always_exits(e):
            self.succ[u].discard(nxt)
            if not handlers:
                self.succ[u].add(self.exit)
        return u

    def reach_from(self, u):
        """Units reachable from u by one or more edges."""
        r = self._reach.get(u)
        if r is None:
            r = set()
            stack = list(self.succ[u])
            while stack:
                x = stack.pop()
                if x in r:
                    continue
                r.add(x)
                stack.extend(self.succ[x])
            self._reach[u] = r
        return r

    def may_follow(self, a, b):
        """May AST node b be evaluated after AST node a (same activation)?"""
        ua = self.unit_of.get(id(a))
        ub = self.unit_of.get(id(b))
        if ua is None or ub is None:
            return None
        if ub in self.reach_from(ua):
            return True
        if ua == ub:
            # same full expression: approximate by source order (pre-order index); arguments are
            # evaluated before the call they belong to
            return self.fi.order[id(b)] > self.fi.order[id(a)] or _is_ancestor(self.fi, b, a)
        return False


def _is_ancestor(fi, anc, n):
    for p, _, _ in fi.ancestors(n):
        if p is anc:
            return True
    return False


# --------------------------------------------------------------------------------------
# whole program

TOLERATED_DIAG = re.compile(r"^constexpr variable '(\w+)' must be initialized by a constant expression$")
# The project uses a GCC extension (constexpr std::sqrt/std::cos in static data members).  Exactly
# these declarations are tolerated; the variables are recorded so that rules reading them know.
TOLERATED_VARS = {"q_min_", "max_dot_product_adhesion_", "max_dot_product_repulsion_",
                  "min_edge_angle_", "max_dot_product_", "min_dot_product_"}


class Program:
    def __init__(self, cfg, paths):
        self.config = cfg
        self.functions = {}     # key -> function dict
        self.by_qn = {}         # qualified name -> [function dict]
        self.records = {}       # qn -> record dict
        self.globals = {}       # qn/name -> var decl
        self.macros = {}
        self.diagnostics = []
        self.units = []
        self._index = {}
        self._callees = None
        self._load(paths)

    # ---- loading -------------------------------------------------------------------
    def _load(self, paths):
        for p in paths:
            with open(p) as fh:
                j = json.load(fh)
            self.units.append(j.get("tu"))
            for d in j["diagnostics"]:
                self.diagnostics.append(d)
            for k, v in j.get("macros", {}).items():
                if k in self.macros and self.macros[k] != v and not k.endswith("_EXPORTS"):
                    raise AnalysisBroken("macro %s differs between translation units (%r vs %r)" % (k, self.macros[k], v))
                self.macros[k] = v
            for f in j["functions"]:
                key = f["key"]
                old = self.functions.get(key)
                if old is None:
                    self.functions[key] = f
                    self.by_qn.setdefault(f["qn"], []).append(f)
                # identical header/inline definitions in several TUs: keep the first
            for r in j["records"]:
                if r["qn"] not in self.records:
                    self.records[r["qn"]] = r
                    # default member initialisers and static data members are code too
                    for f in r.get("fields", []) + r.get("statics", []):
                        if isinstance(f.get("init"), dict):
                            self._pseudo("<init> " + f["qn"], r["file"], f.get("l"), f["init"])
            for g in j.get("globals", []):
                if g["name"] not in self.globals:
                    self.globals[g["name"]] = g
                    if isinstance(g.get("init"), dict):
                        self._pseudo("<init> " + g["name"], g.get("file") or j.get("tu"), g.get("l"), g["init"])
        self._check_diagnostics()
        self._check_config()
        # semantics-preserving normalisation (local lambdas called directly are inlined), see normalize.py
        from . import normalize
        inv = normalize.load_inventory(os.path.join(os.path.dirname(os.path.abspath(__file__)), "reference_functions.txt"))
        self.inventory = inv
        self.inlined_helper_calls = normalize.inline_new_helpers(self, inv, REPO)
        self.unrolled_tables = normalize.unroll_constant_tables(self, REPO)
        self.inlined_lambda_calls = 0
        for f in self.functions.values():
            if f.get("file", "").startswith(REPO) and "/lib/" not in f.get("file", ""):
                self.inlined_lambda_calls += normalize.inline_local_lambdas(f)
        self.threaded_switches = normalize.thread_constant_switches(self, REPO)
        self.sunk_declarations = normalize.sink_single_assignments(self, REPO)
        self.pointer_views = normalize.pointer_views_to_subscripts(self, REPO)
        self.if_converted = normalize.if_convert_and_sink_declarations(self, REPO)
        self.unrolled_loops = normalize.unroll_constant_loops(self, REPO)
        self.scalarised_arrays = normalize.scalarise_local_arrays(self, REPO)

    def _pseudo(self, name, file, line, init):
        """Initialiser of a global / data member, presented as a function so that rules see its code."""
        if name in self.functions:
            return
        f = {"qn": name, "key": name, "name": name, "file": file or "", "line": line, "endline": line, "ret": "",
             "noexcept": False, "params": [], "pseudo": True,
             "body": {"k": "CompoundStmt", "l": line, "c": [init]}}
        self.functions[name] = f
        self.by_qn.setdefault(name, []).append(f)

    def _check_diagnostics(self):
        bad = []
        for d in self.diagnostics:
            m = TOLERATED_DIAG.match(d["msg"])
            if m and d["file"].startswith(REPO + "/include/") and m.group(1) in TOLERATED_VARS:
                continue
            bad.append(d)
        if bad:
            lines = ["%s:%s: %s: %s" % (d["file"], d["line"], d["level"], d["msg"]) for d in bad[:10]]
            raise AnalysisBroken("clang reported errors while parsing %s (config %s):\n  %s" % (REPO, self.config, "\n  ".join(lines)))

    def macro_value(self, name):
        v = self.macros.get(name)
        seen = set()
        while v in self.macros and v not in seen:
            seen.add(v)
            v = self.macros[v]
        return v

    def _check_config(self):
        cm, dm = self.config
        if self.macro_value("CONTACT_MODEL_INDEX") != str(cm) or self.macro_value("DYNAMIC_MODEL_INDEX") != str(dm):
            raise AnalysisBroken("requested configuration CM=%d DM=%d but the tree parsed as CM=%s DM=%s "
                                 "(is the SIMUCELL3D_VERIF hook in include/global_configuration.hpp intact?)"
                                 % (cm, dm, self.macro_value("CONTACT_MODEL_INDEX"), self.macro_value("DYNAMIC_MODEL_INDEX")))

    # ---- lookup ----------------------------------------------------------------------
    def fn(self, qn, required=True):
        """The unique function with this qualified name."""
        l = self.by_qn.get(qn, [])
        if len(l) == 1:
            return l[0]
        if not l:
            if required:
                raise AnalysisBroken("anchor function %s not found in the analysed program (config %s)" % (qn, self.config))
            return None
        raise AnalysisBroken("anchor function %s is overloaded (%d definitions); rule needs a signature" % (qn, len(l)))

    def fns(self, qn, required=True):
        l = self.by_qn.get(qn, [])
        if not l and required:
            raise AnalysisBroken("anchor function %s not found in the analysed program (config %s)" % (qn, self.config))
        return l

    def record(self, qn, required=True):
        r = self.records.get(qn)
        if r is None and required:
            raise AnalysisBroken("anchor class %s not found in the analysed program" % qn)
        return r

    def fully_inlined(self, fn):
        """fn did not exist at the reference tree (a helper extracted by a later change) and every call of it was inlined into
        its callers by the normaliser: the rules see its body at the call sites and need not look at the definition itself."""
        if self.inventory is None or fn.get("qn") in self.inventory or fn.get("pseudo"):
            return False
        cache = getattr(self, "_called_keys", None)
        if cache is None:
            cache = set()
            for g in self.functions.values():
                if isinstance(g.get("body"), dict):
                    for n in walk(g["body"]):
                        if n.get("ckey"):
                            cache.add(n["ckey"])
            self._called_keys = cache
        return fn.get("key") not in cache

    def with_new_helpers(self, fn):
        """fn followed by the repository functions that did not exist at the reference tree (reference_functions.txt) and are
        reachable from it through such functions only: code a later change moved out of fn ('extract method') and that could not
        be inlined back.  Rules that look for a construct 'in fn' look in these as well."""
        out, todo = [fn], [fn]
        if self.inventory is None:
            return out
        while todo:
            g = todo.pop()
            if not isinstance(g.get("body"), dict):
                continue
            for n in walk(g["body"]):
                if is_call(n) and n.get("ckey") in self.functions:
                    h = self.functions[n["ckey"]]
                    if h["qn"] not in self.inventory and h.get("file", "").startswith(REPO) and "/lib/" not in h.get("file", "") and all(h is not x for x in out):
                        out.append(h)
                        todo.append(h)
        return out

    def index(self, fn):
        fi = self._index.get(id(fn))
        if fi is None:
            fi = FuncIndex(fn)
            self._index[id(fn)] = fi
        return fi

    def repo_functions(self):
        return list(self.functions.values())

    def rel(self, path):
        return os.path.relpath(path, REPO) if path.startswith(REPO) else path

    def loc(self, fn, node=None):
        line = (node or {}).get("l") or fn.get("line")
        return "%s:%s" % (self.rel(fn["file"]), line)

    # ---- class hierarchy -------------------------------------------------------------
    def bases(self, qn, transitive=True):
        out = []
        r = self.records.get(qn)
        if not r:
            return out
        for b in r["bases"]:
            bq = b.get("qn")
            if bq:
                out.append(bq)
                if transitive:
                    out.extend(self.bases(bq))
        return out

    def derived(self, qn):
        return [r for r in self.records if qn in self.bases(r)]

    def is_derived_from(self, d, b):
        return d == b or b in self.bases(d)

    # ---- call graph ------------------------------------------------------------------
    def overriders(self, key):
        """Functions (keys) that override method `key`, transitively (CHA)."""
        out = set()
        changed = True
        targets = {key}
        while changed:
            changed = False
            for f in self.functions.values():
                if f["key"] in out:
                    continue
                if any(o in targets for o in f.get("overrides", [])):
                    out.add(f["key"])
                    targets.add(f["key"])
                    changed = True
        return out

    def call_targets(self, call):
        """Keys of repository functions a call node may invoke."""
        key = call.get("ckey")
        if not key:
            return set()
        out = set()
        if key in self.functions:
            out.add(key)
        if call.get("virtual"):
            out |= self._overriders_cached(key)
        return out

    def _overriders_cached(self, key):
        c = self.__dict__.setdefault("_ovc", {})
        if key not in c:
            c[key] = self.overriders(key)
        return c[key]

    def callees(self, fn):
        """Set of keys directly called (lambdas defined in fn are attributed to fn)."""
        if self._callees is None:
            self._callees = {}
        k = fn["key"]
        if k not in self._callees:
            out = set()
            roots = [fn["body"]] if isinstance(fn.get("body"), dict) else []
            roots += [i["init"] for i in fn.get("inits", []) if isinstance(i.get("init"), dict)]
            for r in roots:
                for n in walk(r):
                    if is_call(n):
                        out |= self.call_targets(n)
            self._callees[k] = out
        return self._callees[k]

    def closure(self, keys):
        """Transitive callee closure (keys of repository functions), including the starting keys."""
        seen = set()
        stack = list(keys)
        while stack:
            k = stack.pop()
            if k in seen or k not in self.functions:
                continue
            seen.add(k)
            stack.extend(self.callees(self.functions[k]))
        return seen


def load(configs, tier="quick", latent_openmp=False):
    """Extracts and loads the requested configurations. Returns ({cfg: Program}, stats). With latent_openmp every Program gets an
    attribute .latent: None, or the Program in which the units built without -fopenmp but carrying '#pragma omp' lines are parsed
    with -fopenmp (and .latent_units, their repository-relative paths)."""
    t0 = time.time()
    scratch, res, stats = X.extract(configs, latent_openmp=latent_openmp)
    try:
        progs = {c: Program(c, res[c]) for c in configs}
        lat = stats.pop("_latent_paths", None) or {}
        for c in configs:
            progs[c].latent = Program(c, lat[c]) if lat.get(c) else None
            progs[c].latent_units = stats.get("latent_openmp_units", [])
            if progs[c].latent is not None:
                progs[c].latent.latent = None
                progs[c].latent.latent_units = progs[c].latent_units
    finally:
        shutil.rmtree(scratch, ignore_errors=True)
    stats["load_wall_s"] = round(time.time() - t0, 2)
    stats["functions"] = {"cm%d_dm%d" % c: len(p.functions) for c, p in progs.items()}
    return progs, stats


def load_variant(cfg, rel_file, extra_flags):
    """Program holding one translation unit re-extracted with extra flags (see extract.extract_variant)."""
    scratch, path, had = X.extract_variant(rel_file, cfg, extra_flags)
    try:
        return Program(cfg, [path]), had
    finally:
        shutil.rmtree(scratch, ignore_errors=True)
