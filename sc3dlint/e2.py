"""E2 - exception discipline: may-throw summaries over the resolved call graph, catch coverage,
noexcept escape, OpenMP containment."""
import re

from .model import walk, strip, is_call, call_obj, call_args, render, short, AnalysisBroken

ANY = "<any>"

# std / third-party calls that throw by contract (frozen table, one reason each)
STD_THROWS = [
    (re.compile(r"^std::(stoi|stol|stoul|stoll|stoull|stof|stod|stold)$"), ["std::invalid_argument", "std::out_of_range"], "string to number conversion"),
    (re.compile(r"^std::(vector|map|unordered_map|array|deque|basic_string)<.*>::at$"), ["std::out_of_range"], "checked element access"),
    (re.compile(r"^std::basic_string<.*>::substr$"), ["std::out_of_range"], "substr position check"),
    (re.compile(r"^std::basic_regex<.*>::basic_regex$"), ["std::regex_error"], "regex compilation"),
    (re.compile(r"^std::rethrow_exception$"), [ANY], "rethrows a stored exception"),
    (re.compile(r"^std::filesystem::(remove_all|create_directories|create_directory|absolute|remove|copy|rename|canonical)$"), ["std::filesystem::filesystem_error"], "filesystem operation without error_code"),
    (re.compile(r"^std::function<.*>::operator\(\)$"), [ANY], "invokes an arbitrary callable"),
]
STD_EXCEPTION_TYPES = {
    "std::exception": [], "std::logic_error": ["std::exception"], "std::runtime_error": ["std::exception"],
    "std::invalid_argument": ["std::logic_error"], "std::out_of_range": ["std::logic_error"],
    "std::length_error": ["std::logic_error"], "std::domain_error": ["std::logic_error"],
    "std::range_error": ["std::runtime_error"], "std::overflow_error": ["std::runtime_error"],
    "std::regex_error": ["std::runtime_error"], "std::system_error": ["std::runtime_error"],
    "std::filesystem::filesystem_error": ["std::system_error"], "std::ios_base::failure": ["std::system_error"],
    "std::bad_optional_access": ["std::exception"], "std::bad_alloc": ["std::exception"],
    "std::bad_function_call": ["std::exception"], "std::bad_cast": ["std::exception"],
    "std::bad_variant_access": ["std::exception"],
}


class Exceptions:
    def __init__(self, prog, with_optional_value=False):
        self.p = prog
        self.with_optional = with_optional_value
        self.throws = {}        # key -> {type: (site description)}
        self._compute()

    # ---- type lattice ---------------------------------------------------------------------
    def bases_of(self, t):
        out = [t]
        if t in STD_EXCEPTION_TYPES:
            for b in STD_EXCEPTION_TYPES[t]:
                out.extend(self.bases_of(b))
        elif t in self.p.records:
            for b in self.p.records[t]["bases"]:
                if b.get("access", 0) != 0:
                    continue        # a private / protected base is not accessible to a handler: catch(Base&) does not match
                bq = b.get("qn") or b.get("t")
                out.extend(self.bases_of(bq))
        return out

    def derives_from_std_exception(self, t):
        return "std::exception" in self.bases_of(t)

    def handler_catches(self, htype, t):
        if htype == "...":
            return True
        if t == ANY:
            return False
        return htype in self.bases_of(t)

    # ---- direct throw sources of one call node ------------------------------------------------
    def std_call_throws(self, fi, n):
        callee = n.get("callee", "")
        if not callee:
            return {}
        base = re.sub(r"<.*>::", lambda m: m.group(0), callee)
        for rx, types, why in STD_THROWS:
            if rx.match(callee):
                return {t: "%s (%s)" % (callee, why) for t in types}
        if self.with_optional and re.match(r"^std::optional<.*>::value$", callee):
            if not self.value_guarded(fi, n):
                return {"std::bad_optional_access": callee + " without a dominating has_value() test"}
        return {}

    def value_guarded(self, fi, n):
        obj = call_obj(n)
        if obj is None:
            return False
        key = render(obj)
        for cond, pol in fi.guards(n):
            for x in walk(cond):
                if x.get("k") == "CXXMemberCallExpr" and x.get("callee", "").endswith("::has_value") and render(call_obj(x)) == key:
                    # polarity: find whether has_value() appears negated
                    neg = _negations_above(cond, x)
                    if (pol and not neg) or ((not pol) and neg):
                        return True
                if x.get("k") == "CXXMemberCallExpr" and x.get("callee", "").endswith("::operator bool") and render(call_obj(x)) == key:
                    neg = _negations_above(cond, x)
                    if (pol and not neg) or ((not pol) and neg):
                        return True
        return False

    # ---- what escapes a statement region, given callee summaries ---------------------------------
    def escapes(self, fn, root):
        """{type: site} of exceptions that may leave AST region `root` of function fn."""
        fi = self.p.index(fn)
        out = {}
        self._esc(fn, fi, root, out)
        return out

    def _esc(self, fn, fi, n, out):
        k = n.get("k")
        if k == "LambdaExpr":
            return  # defining a lambda throws nothing; its body is accounted where it is invoked
        if k == "CXXTryStmt":
            inner = {}
            self._esc(fn, fi, n["block"], inner)
            rethrown = {}
            for h in n.get("handlers", []):
                hb = {}
                self._esc(fn, fi, h["body"], hb)
                # 'throw;' inside the handler rethrows what it caught
                if "<rethrow>" in hb:
                    site = hb.pop("<rethrow>")
                    for t, s in inner.items():
                        if self.handler_catches(h["type"], t):
                            rethrown[t] = s
                out.update(hb)
            for t, s in inner.items():
                if not any(self.handler_catches(h["type"], t) for h in n.get("handlers", [])):
                    out[t] = s
            out.update(rethrown)
            return
        if k == "CXXThrowExpr":
            if n.get("rethrow"):
                out["<rethrow>"] = "%s: throw;" % self.p.loc(fn, n)
            else:
                out[n.get("thrown_t", "?")] = "%s: %s" % (self.p.loc(fn, n), short(n, 90))
        if is_call(n):
            if not n.get("cnoexcept"):
                for tk in self.p.call_targets(n):
                    tf = self.p.functions[tk]
                    if tf.get("noexcept"):
                        continue
                    for t, s in self.throws.get(tk, {}).items():
                        out.setdefault(t, "%s: call of %s -> %s" % (self.p.loc(fn, n), tf["qn"], s.split(" -> ")[-1] if len(s) > 200 else s))
                for t, s in self.std_call_throws(fi, n).items():
                    out.setdefault(t, "%s: %s" % (self.p.loc(fn, n), s))
                # a callable argument (lambda) is invoked by the callee
                for a in call_args(n):
                    sa = strip(a)
                    if sa.get("k") == "LambdaExpr" and not sa.get("noexcept"):
                        # e.g. std::for_each(..., lambda) / parallel_exception_handler(vec, lambda)
                        if not self._callee_contains(n):
                            self._esc(fn, fi, sa["body"], out)
        from .model import children
        for c in children(n):
            self._esc(fn, fi, c, out)

    def _callee_contains(self, call):
        """True if the callee is known to contain exceptions thrown by its callable argument
        and re-deliver them itself (handled through its own summary)."""
        return False

    def _compute(self):
        fns = [f for f in self.p.repo_functions() if isinstance(f.get("body"), dict)]
        for f in fns:
            self.throws[f["key"]] = {}
        for _ in range(40):
            changed = False
            for f in fns:
                esc = {}
                fi = self.p.index(f)
                for i in f.get("inits", []):
                    if isinstance(i.get("init"), dict):
                        self._esc(f, fi, i["init"], esc)
                self._esc(f, fi, f["body"], esc)
                esc.pop("<rethrow>", None)
                cur = self.throws[f["key"]]
                for t, s in esc.items():
                    if t not in cur:
                        cur[t] = s
                        changed = True
            if not changed:
                break


def _negations_above(root, target):
    """number (mod 2) of '!' operators between root and target."""
    def rec(n, neg):
        if n is target:
            return neg
        from .model import children
        for c in children(n):
            nn = neg
            if n.get("k") == "UnaryOperator" and n.get("op") == "!":
                nn = not neg
            r = rec(c, nn)
            if r is not None:
                return r
        return None
    r = rec(root, False)
    return bool(r)
