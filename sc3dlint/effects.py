"""May-write effect summaries (region-based, flow-insensitive, context-insensitive with
per-call-site substitution), computed to a fixpoint over the resolved call graph.

An effect is (root, path, sync):
   root : 'this' | ('param', i) | ('global', name) | ('unknown', why)
   path : tuple of field qualified names ('[]' for "some element of")
   sync : None | 'atomic' | 'critical:<name>' | 'lock'
Locals of value type are private to the activation and produce no effect.
"""
import re

from .model import walk, strip, is_call, call_obj, call_args, render, short, children

MUTATING_ALGOS = {"std::sort", "std::stable_sort", "std::fill", "std::iota", "std::reverse", "std::remove_if",
                  "std::remove", "std::unique", "std::rotate", "std::swap", "std::shuffle", "std::partial_sum",
                  "std::nth_element", "std::partial_sort", "std::generate", "std::replace", "std::fill_n"}
DEST_ALGOS = {"std::copy": 2, "std::transform": None, "std::move": 2, "std::copy_if": 2, "std::copy_n": 2}
STD_NONCONST_READERS = {"begin", "end", "rbegin", "rend", "operator[]", "at", "front", "back", "data", "find",
                        "lower_bound", "upper_bound", "equal_range", "get", "operator->", "operator*", "value",
                        "cbegin", "cend", "operator bool", "c_str", "what", "good", "is_open", "fail", "eof", "str",
                        "rdbuf", "native_handle", "second", "first", "count", "size", "empty", "has_value",
                        "precision", "width", "flags", "base"}
ELEM = "[]"
PTR_RE = re.compile(r"(\*|&|std::shared_ptr<|std::unique_ptr<|__normal_iterator|std::reference_wrapper<|_iterator<|std::weak_ptr<)")


def is_aliasing_type(t):
    t = t or ""
    return bool(PTR_RE.search(t))


def sync_of(fi, n, stop=None):
    """Synchronisation context of node n inside its function."""
    for p, slot, ch in fi.ancestors(n):
        if p is stop:
            break
        o = p.get("omp")
        if o == "atomic":
            return "atomic"
        if o == "critical":
            return "critical:" + (p.get("name") or "")
    return None


class Effects:
    def __init__(self, prog):
        self.p = prog
        self.writes = {}       # key -> set of (root, path, sync)
        self.returns = {}      # key -> (root, path) when every return designates the same place
        self.locks = {}        # key -> True if body brackets its writes with omp_set_lock/unset_lock
        self.fresh = {}        # key -> True when every returned value is a freshly created (activation-private) object
        self._env = {}
        self._compute()

    # ---- resolution ------------------------------------------------------------------------
    def env(self, fn):
        """did -> init expression (aliasing locals) / ('param', i) / 'value-local' / ('rangevar', range expr)."""
        e = self._env.get(fn["key"])
        if e is not None:
            return e
        e = {}
        for i, p in enumerate(fn.get("params", [])):
            e[p["did"]] = ("param", i, p["t"])
        roots = []
        if isinstance(fn.get("body"), dict):
            roots.append(fn["body"])
        for r in roots:
            for n in walk(r):
                k = n.get("k")
                if k == "CXXForRangeStmt":
                    v = n["var"]
                    e[v["did"]] = ("rangevar", n["range"], v.get("t", ""))
                elif k in ("Var",) and "did" in n and n["did"] not in e:
                    e[n["did"]] = ("local", n.get("init"), n.get("t", ""))
                elif k == "Decomposition":
                    e[n["did"]] = ("local", n.get("init"), n.get("t", ""))
                    for b in n.get("bindings", []):
                        e[b["did"]] = ("binding", n.get("init"), n.get("t", ""))
                elif k == "LambdaExpr":
                    for q in n.get("params", []):
                        e[q["did"]] = ("lambda-param", n, q.get("t", ""))
        self._env[fn["key"]] = e
        return e

    def resolve(self, fn, e, depth=0):
        """-> (root, path) or None when e denotes activation-private storage."""
        if depth > 25:
            return (("unknown", "alias chain too deep"), ())
        e = strip(e)
        k = e.get("k")
        if k == "CXXThisExpr":
            return ("this", ())
        if k == "MemberExpr":
            if e["ref"].get("dk") != "Field":
                return None
            base = e["c"][0] if e.get("c") else {"k": "CXXThisExpr"}
            r = self.resolve(fn, base, depth + 1)
            if r is None:
                return None
            return (r[0], r[1] + (e["ref"]["qn"],))
        if k == "DeclRefExpr":
            ref = e["ref"]
            if ref.get("dk") in ("Var", "ParmVar", "Binding", "Decomposition"):
                if "qn" in ref and ref.get("dk") == "Var":
                    return (("global", ref["qn"]), ())
                ent = self.env(fn).get(ref["did"])
                if ent is None:
                    # variable of an enclosing function captured by a lambda whose env we do not have
                    return (("unknown", "variable %s not found" % ref["name"]), ())
                kind = ent[0]
                if kind == "param":
                    if is_aliasing_type(ent[2]):
                        return (("param", ent[1]), ())
                    return (("local", ref["did"], ref["name"]), ())
                if kind == "rangevar":
                    if is_aliasing_type(ent[2]):
                        r = self.resolve(fn, ent[1], depth + 1)
                        if r is None:
                            return None
                        return (r[0], r[1] + (ELEM,))
                    return (("local", ref["did"], ref["name"]), ())
                if kind in ("local", "binding"):
                    if ref.get("static_local"):
                        return (("global", "static " + ref["name"]), ())
                    if is_aliasing_type(ent[2]) and isinstance(ent[1], dict):
                        init = strip(ent[1])
                        # a fresh object: make_shared / new / by-value construction -> private
                        if self._is_fresh(init):
                            return (("local", ref["did"], ref["name"]), ())
                        r = self.resolve(fn, init, depth + 1)
                        if r is None:
                            return (("local", ref["did"], ref["name"]), ())
                        return r
                    return (("local", ref["did"], ref["name"]), ())
                if kind == "lambda-param":
                    if is_aliasing_type(ent[2]):
                        return self._lambda_param_alias(fn, ent[1], ref["did"], depth)
                    return (("local", ref["did"], ref["name"]), ())
            return None
        if k == "CXXOperatorCallExpr":
            op = e.get("op")
            c = e.get("c", [])
            if op in ("*", "->") and len(c) == 2:
                return self.resolve(fn, c[1], depth + 1)
            if op == "[]" and len(c) == 3:
                r = self.resolve(fn, c[1], depth + 1)
                if r is None:
                    return None if not re.search(r"shared_ptr<|\*$", e.get("t", "")) else (("unknown", "pointer element of a local container"), ())
                return (r[0], r[1] + (ELEM,))
            if op in ("++", "--", "+", "-", "+=", "-=") and len(c) >= 2:
                return self.resolve(fn, c[1], depth + 1)
            if op == "=" and len(c) == 3:
                return self.resolve(fn, c[1], depth + 1)
            return None
        if k == "UnaryOperator" and e.get("op") in ("*", "&", "++", "--"):
            return self.resolve(fn, e["c"][0], depth + 1)
        if k == "ArraySubscriptExpr":
            r = self.resolve(fn, e["c"][0], depth + 1)
            return None if r is None else (r[0], r[1] + (ELEM,))
        if k in ("CXXConstCastExpr", "CXXStaticCastExpr", "CStyleCastExpr", "CXXReinterpretCastExpr", "CXXDynamicCastExpr", "CXXFunctionalCastExpr") and e.get("c"):
            return self.resolve(fn, e["c"][0], depth + 1)
        if k in ("CXXConstructExpr", "CXXTemporaryObjectExpr"):
            # copying a pointer-like object aliases its pointee; anything else is a fresh value
            if (e.get("copy") or e.get("move")) and e.get("c") and is_aliasing_type(e.get("t", "")):
                return self.resolve(fn, e["c"][0], depth + 1)
            if e.get("c") and len(e["c"]) == 1 and re.match(r"^(const )?std::(shared_ptr|weak_ptr)<", e.get("t", "")) and is_aliasing_type(strip(e["c"][0]).get("t", "")):
                return self.resolve(fn, e["c"][0], depth + 1)   # converting copy shared_ptr<D> -> shared_ptr<B>
            return None
        if k == "ConditionalOperator":
            a = self.resolve(fn, e["c"][1], depth + 1)
            b = self.resolve(fn, e["c"][2], depth + 1)
            return a or b
        if k == "CXXMemberCallExpr":
            callee = e.get("callee", "")
            name = callee.split("::")[-1]
            obj = call_obj(e)
            if obj is None:
                return None
            if not self.p.call_targets(e):
                # std accessors: element / pointee of the object
                if name in ("at", "front", "back", "operator[]", "begin", "end", "data", "rbegin", "rend", "find", "emplace_back", "cbegin", "cend"):
                    r = self.resolve(fn, obj, depth + 1)
                    return None if r is None else (r[0], r[1] + (ELEM,))
                if name in ("get", "value", "operator->", "operator*", "lock"):
                    return self.resolve(fn, obj, depth + 1)
                if name == "shared_from_this":
                    return self.resolve(fn, obj, depth + 1)
                return None
            outs = []
            for tk in self.p.call_targets(e):
                rr = self.returns.get(tk)
                if rr is None:
                    tf = self.p.functions[tk]
                    if self.fresh.get(tk):
                        continue
                    if is_aliasing_type(tf.get("ret", "")):
                        return (("unknown", "result of %s" % tf["qn"]), ())
                    return None
                outs.append(self._subst(fn, e, rr, depth))
            outs = [o for o in outs if o is not None]
            return outs[0] if outs else None
        if k == "InitListExpr" or k == "CXXStdInitializerListExpr":
            rs = [self.resolve(fn, c, depth + 1) for c in e.get("c", [])]
            rs = [r for r in rs if r is not None]
            return rs[0] if rs else None
        if k == "CallExpr":
            callee = e.get("callee", "")
            if callee in ("std::make_pair", "std::make_tuple", "std::make_optional"):
                rs = [self.resolve(fn, c, depth + 1) for c in call_args(e)]
                rs = [r for r in rs if r is not None]
                return rs[0] if rs else None
            if callee in ("std::find", "std::find_if", "std::min_element", "std::max_element", "std::next", "std::prev", "std::lower_bound"):
                a = call_args(e)
                if a:
                    return self.resolve(fn, a[0], depth + 1)
            if callee in ("std::move", "std::forward", "std::ref", "std::cref", "std::addressof", "std::as_const", "std::get"):
                a = call_args(e)
                if a:
                    return self.resolve(fn, a[0], depth + 1)
            if callee in ("std::make_shared", "std::make_unique"):
                return None
            for tk in self.p.call_targets(e):
                rr = self.returns.get(tk)
                if rr is not None:
                    return self._subst(fn, e, rr, depth)
                tf = self.p.functions[tk]
                if self.fresh.get(tk):
                    continue
                if is_aliasing_type(tf.get("ret", "")):
                    return (("unknown", "result of %s" % tf["qn"]), ())
            return None
        return None

    def _is_fresh(self, init):
        k = init.get("k")
        if k == "CallExpr" and init.get("callee") in ("std::make_shared", "std::make_unique"):
            return True
        if k == "CXXNewExpr":
            return True
        if k in ("CXXConstructExpr", "CXXTemporaryObjectExpr") and not (init.get("copy") or init.get("move")):
            return True
        return False

    def _lambda_param_alias(self, fn, lam, did, depth):
        """Lambda passed to std::for_each / parallel_exception_handler & co: its first parameter aliases
        an element of the iterated container."""
        fi = self.p.index(fn)
        p, slot = fi.parent.get(id(lam), (None, None))
        cur = lam
        while p is not None and p.get("k") in ("ImplicitCastExpr", "MaterializeTemporaryExpr", "CXXBindTemporaryExpr", "CXXConstructExpr", "ExprWithCleanups", "CXXFunctionalCastExpr", "CXXTemporaryObjectExpr"):
            cur = p
            p, slot = fi.parent.get(id(p), (None, None))
        if p is not None and p.get("k") == "CallExpr":
            callee = p.get("callee", "")
            args = call_args(p)
            if callee in ("std::for_each", "std::all_of", "std::any_of", "std::none_of", "std::count_if", "std::find_if", "std::remove_if", "std::accumulate", "std::transform", "std::sort", "std::min_element", "std::max_element", "parallel_exception_handler"):
                r = self.resolve(fn, args[0], depth + 1)
                if r is None:
                    return None
                if r[1] and r[1][-1] == ELEM:
                    return r
                return (r[0], r[1] + (ELEM,))
        return (("unknown", "parameter of a lambda with unknown caller"), ())

    def _subst(self, fn, call, eff, depth=0):
        """Map a callee-relative (root, path) to the caller's frame at this call."""
        root, path = eff[0], eff[1]
        if root == "this":
            obj = call_obj(call)
            if obj is None:
                if call.get("k") in ("CXXConstructExpr", "CXXTemporaryObjectExpr"):
                    return None  # object under construction: private until published
                base = ("this", ())
            else:
                base = self.resolve(fn, obj, depth + 1)
            if base is None:
                return None
            return (base[0], base[1] + path)
        if isinstance(root, tuple) and root[0] == "param":
            args = call_args(call)
            if root[1] >= len(args):
                return (("unknown", "default argument"), path)
            base = self.resolve(fn, args[root[1]], depth + 1)
            if base is None:
                return None
            return (base[0], base[1] + path)
        return (root, path)

    # ---- direct writes of a function ------------------------------------------------------------
    def direct_effects(self, fn):
        out = set()
        if not isinstance(fn.get("body"), dict):
            return out
        fi = self.p.index(fn)
        has_lock = any(n.get("k") == "CallExpr" and n.get("callee") == "omp_set_lock" for n in walk(fn["body"]))
        roots = [fn["body"]] + [i["init"] for i in fn.get("inits", []) if isinstance(i.get("init"), dict)]
        for root in roots:
            for n in walk(root):
                k = n.get("k")
                targets = []
                if k in ("BinaryOperator", "CompoundAssignOperator") and (n.get("op") == "=" or k == "CompoundAssignOperator"):
                    targets.append(n["c"][0])
                elif k == "UnaryOperator" and n.get("op") in ("++", "--"):
                    targets.append(n["c"][0])
                elif is_call(n):
                    tks = self.p.call_targets(n)
                    if tks:
                        here = self.param_guards(fn, fi, n)
                        for tk in tks:
                            for (r, p, s, g) in self.writes.get(tk, ()):
                                g2 = self.map_guards(fn, n, g)
                                if g2 is None:
                                    continue  # statically excluded by a literal argument
                                m = self._subst(fn, n, (r, p))
                                if m is not None and not (isinstance(m[0], tuple) and m[0][0] == "local"):
                                    out.add((m[0], m[1], s or sync_of(fi, n) or ("lock" if has_lock else None), g2 | here))
                        continue
                    callee = n.get("callee", "")
                    name = callee.split("::")[-1]
                    if k == "CXXMemberCallExpr" and not n.get("cconst") and name not in STD_NONCONST_READERS:
                        o = call_obj(n)
                        if o is not None:
                            targets.append(o)
                    elif k == "CXXOperatorCallExpr" and n.get("cmember") and not callee.endswith("operator()") and n.get("op") in ("=", "+=", "-=", "*=", "/=", "++", "--", "<<", ">>"):
                        targets.append(n["c"][1])
                    elif k == "CXXOperatorCallExpr" and n.get("op") == "()" and len(n.get("c", [])) >= 2:
                        # calling a std function object: distributions / engines mutate themselves and their argument
                        ot = strip(n["c"][1]).get("t", "")
                        if re.search(r"_distribution<|linear_congruential_engine|mersenne_twister_engine|random_device", ot):
                            targets.append(n["c"][1])
                            targets.extend(n["c"][2:])
                    elif k == "CallExpr":
                        a = call_args(n)
                        if callee in MUTATING_ALGOS and a:
                            targets.append(a[0])
                            if callee == "std::swap" and len(a) > 1:
                                targets.append(a[1])
                        elif callee in DEST_ALGOS and a:
                            targets.append(a[-1] if callee == "std::transform" and len(a) == 4 else a[min(2, len(a) - 1)])
                        elif callee in ("std::getline",) and len(a) > 1:
                            targets.append(a[1])
                for t in targets:
                    r = self.resolve(fn, t)
                    if r is None or (isinstance(r[0], tuple) and r[0][0] == "local"):
                        continue
                    if fn.get("ctor") and r[0] == "this":
                        continue
                    out.add((r[0], r[1], sync_of(fi, n) or ("lock" if has_lock else None), self.param_guards(fn, fi, n)))
        return out

    def param_guards(self, fn, fi, n):
        """frozenset of (param index, polarity): bare boolean parameters whose value structurally
        guards node n ('if(rebase_bool) ...')."""
        out = set()
        pidx = {p["did"]: i for i, p in enumerate(fn.get("params", [])) if p.get("t", "").replace("const ", "") == "bool"}
        if not pidx:
            return frozenset()
        for cond, pol in fi.guards(n, through_lambdas=True):
            c = strip(cond)
            neg = False
            while c.get("k") == "UnaryOperator" and c.get("op") == "!":
                neg = not neg
                c = strip(c["c"][0])
            if c.get("k") == "DeclRefExpr" and c["ref"]["did"] in pidx:
                out.add((pidx[c["ref"]["did"]], pol != neg))
        return frozenset(out)

    def map_guards(self, fn, call, guards):
        """Translate callee-parameter guards through a call: None if a literal argument contradicts a
        guard (the effect cannot happen at this call); otherwise the guards expressed on fn's own
        parameters (guards on non-literal, non-parameter arguments are dropped = unconditional)."""
        if not guards:
            return frozenset()
        args = call_args(call)
        out = set()
        pidx = {p["did"]: i for i, p in enumerate(fn.get("params", []))}
        for (i, pol) in guards:
            if i >= len(args):
                continue
            a = strip(args[i])
            if a.get("k") == "CXXDefaultArgExpr":
                a = strip(a.get("default_arg", {}))
            if a.get("k") == "CXXBoolLiteralExpr":
                if bool(a.get("v")) != pol:
                    return None
                continue
            if a.get("k") == "DeclRefExpr" and a["ref"]["did"] in pidx:
                out.add((pidx[a["ref"]["did"]], pol))
        return frozenset(out)

    def _compute(self):
        fns = [f for f in self.p.repo_functions() if isinstance(f.get("body"), dict)]
        # return-place summaries
        for _ in range(5):
            changed = False
            for f in fns:
                if not is_aliasing_type(f.get("ret", "")) or f["ret"].startswith("std::shared_ptr") and False:
                    continue
                rets = [n for n in walk(f["body"], into_lambdas=False) if n.get("k") == "ReturnStmt" and isinstance(n.get("value"), dict)]
                vals = set()
                for r in rets:
                    v = self.resolve(f, r["value"])
                    if v is not None and isinstance(v[0], tuple) and v[0][0] == "local":
                        v = None
                    vals.add(v)
                if (not rets or vals == {None}) and not self.fresh.get(f["key"]):
                    self.fresh[f["key"]] = True
                    changed = True
                if len(vals) == 1:
                    v = vals.pop()
                    if v is not None and v[0] in ("this",) or (v is not None and isinstance(v[0], tuple) and v[0][0] in ("param", "global")):
                        if self.returns.get(f["key"]) != v:
                            self.returns[f["key"]] = v
                            changed = True
            if not changed:
                break
        for f in fns:
            self.writes[f["key"]] = set()
        for _ in range(40):
            changed = False
            for f in fns:
                d = self.direct_effects(f)
                cur = self.writes[f["key"]]
                # bound the path length to keep the lattice finite
                d = {(r, p[:5], s, g) for (r, p, s, g) in d}
                if not d <= cur:
                    cur |= d
                    changed = True
            if not changed:
                break

    # ---- queries -------------------------------------------------------------------------------
    def call_effects(self, fn, call):
        """Effects of one call node, in the caller's frame."""
        fi = self.p.index(fn)
        out = set()
        for tk in self.p.call_targets(call):
            for (r, p, s, g) in self.writes.get(tk, ()):
                if self.map_guards(fn, call, g) is None:
                    continue
                m = self._subst(fn, call, (r, p))
                if m is not None:
                    out.add((m[0], m[1], s or sync_of(fi, call)))
        return out


def fmt_effect(e):
    root, path, sync = e[0], e[1], e[2]
    r = root if isinstance(root, str) else "%s(%s)" % (root[0], root[1])
    return "%s%s%s" % (r, "".join("." + x.split("::")[-1] if x != ELEM else "[*]" for x in path), " [%s]" % sync if sync else "")
