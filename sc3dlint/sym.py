"""E3 - LF engine: symbolic normal forms of expressions and straight-line store summaries.

A value is a sympy expression (scalars), a Rec (record with named fields, e.g. vec3), a Lazy
(an opaque object of class type whose fields become atoms on demand) or a Tup (pair / tuple /
array / braced list).  Calls to small straight-line repository functions (vec3's operators,
getters, node::operator-, ...) are *opened* from their own AST - the engine hard-codes no vec3
semantics - and everything else becomes an opaque atom that is identical for identical
arguments.  No branch condition is ever interpreted, with one idiom: 'x != 0 ? A : B' evaluates
to A and records the assumption.
"""
import re
from decimal import Decimal

import sympy as sp

from .model import walk, strip, is_call, call_obj, call_args, render, short, AnalysisBroken, children


class Decline(Exception):
    """The engine cannot bring this construct to a normal form (instance is analysis-broken)."""


class Rec:
    def __init__(self, cls, fields):
        self.cls = cls
        self.f = dict(fields)

    def __repr__(self):
        return "%s{%s}" % (self.cls, ", ".join("%s=%s" % kv for kv in self.f.items()))


class Tup:
    def __init__(self, items):
        self.items = list(items)

    def __repr__(self):
        return "(" + ", ".join(map(repr, self.items)) + ")"


class Lazy:
    def __init__(self, path, cls):
        self.path = path
        self.cls = cls

    def __repr__(self):
        return "<%s:%s>" % (self.path, self.cls)


SCALAR_T = re.compile(r"^(const )?(double|float|int|unsigned int|long|unsigned long|short|unsigned short|bool|char|unsigned char|long double|unsigned long long|long long)( const)?$")
STD_FUN = {
    "sqrt": sp.sqrt, "std::sqrt": sp.sqrt, "std::abs": sp.Abs, "abs": sp.Abs, "std::fabs": sp.Abs, "fabs": sp.Abs,
    "std::exp": sp.exp, "exp": sp.exp, "std::log": sp.log, "log": sp.log, "std::cos": sp.cos, "std::sin": sp.sin,
    "std::tan": sp.tan, "std::acos": sp.acos, "std::floor": sp.floor, "floor": sp.floor, "std::ceil": sp.ceiling,
    "ceil": sp.ceiling, "cos": sp.cos, "sin": sp.sin, "tan": sp.tan, "acos": sp.acos, "std::atan2": sp.atan2,
}


def clean_type(t):
    t = (t or "").strip()
    t = re.sub(r"^const ", "", t)
    t = re.sub(r"\s*(&&|&|\*)$", "", t).strip()
    t = re.sub(r"^const ", "", t)
    t = re.sub(r" const$", "", t)
    return t


def is_scalar_type(t):
    return bool(SCALAR_T.match(clean_type(t)))


class SymEval:
    def __init__(self, prog, fn, nonneg=(), this_path="this", lazy_scalars=False):
        self.lazy_scalars = lazy_scalars
        self.local_syms = {}      # sympy symbol -> did of the scalar local it stands for
        self.p = prog
        self.fn = fn
        self.fi = prog.index(fn)
        self.store = {}           # leaf path -> sympy expr (after executed mutations)
        self.memo = {}            # did -> value of single-assignment locals
        self.atoms = {}           # atom key -> symbol
        self.assumptions = []
        self.opened = set()
        self.this_path = this_path
        self.depth = 0
        self._decls = None
        self.overrides = {}       # did -> Value (used when opening callees: parameters)
        self.this_val = None
        self.nonneg_names = set(nonneg)
        self.havoc_epoch = None
        self.havoc_n = 0
        self.atom_args = {}       # opaque call atom (path prefix) -> argument values

    # ---- atoms ---------------------------------------------------------------------------------
    def sym(self, name):
        s = self.atoms.get(name)
        if s is None:
            s = sp.Symbol(name, real=True)
            self.atoms[name] = s
        return s

    def obj(self, path, t):
        """Opaque object/scalar of declared type t at path."""
        ct = clean_type(t)
        if is_scalar_type(ct) or ct in self.p.macros:
            if path in self.store:
                return self.store[path]
            ep = 0
            if self.havoc_epoch:
                comps = re.split(r"[.\[\]()]", path)
                ep = max([self.havoc_epoch.get(c, 0) for c in comps] + [0])
            return self.sym(path + ("@%d" % ep if ep else ""))
        return Lazy(path, ct)

    def _mutable_leaf(self, path):
        """Only storage that the analysed function may write at all is affected by a havoc."""
        if getattr(self, "_mut_fields", None) is None:
            m = set()
            root = self.root_fn if getattr(self, "root_fn", None) else self.fn
            for n in walk(root["body"]):
                k = n.get("k")
                t = None
                if k in ("BinaryOperator", "CompoundAssignOperator") and (n.get("op") == "=" or k == "CompoundAssignOperator"):
                    t = n["c"][0]
                elif k == "UnaryOperator" and n.get("op") in ("++", "--"):
                    t = n["c"][0]
                elif k == "CXXOperatorCallExpr" and n.get("op") in ("=", "+=", "-=", "*=", "/=") and len(n.get("c", [])) >= 2:
                    t = n["c"][1]
                elif k == "CXXMemberCallExpr" and not n.get("cconst"):
                    t = call_obj(n)
                if t is not None:
                    for x in walk(t):
                        if x.get("k") == "MemberExpr" and x["ref"].get("dk") == "Field":
                            m.add(x["ref"]["name"])
            self._mut_fields = m
        comps = re.split(r"[.\[\]()]", path)
        return any(c in self._mut_fields for c in comps)

    def havoc(self, stmt):
        """A statement the engine does not execute (loop, branch, opaque call): every local it assigns and
        every stored field it may write becomes a fresh unknown.  Fields it cannot write keep their value."""
        self._var_decl(0)
        names = set()
        everything = False
        for n in walk(stmt):
            k = n.get("k")
            t = None
            if k in ("BinaryOperator", "CompoundAssignOperator") and (n.get("op") == "=" or k == "CompoundAssignOperator"):
                t = n["c"][0]
            elif k == "UnaryOperator" and n.get("op") in ("++", "--"):
                t = n["c"][0]
            elif k == "CXXOperatorCallExpr" and n.get("op") in ("=", "+=", "-=", "*=", "/=") and len(n.get("c", [])) >= 2:
                t = n["c"][1]
            elif k == "CXXMemberCallExpr" and not n.get("cconst"):
                t = call_obj(n)
                if self.p.call_targets(n):
                    tf = [self.p.functions[x] for x in self.p.call_targets(n)]
                    if not all(self.openable(f) for f in tf):
                        everything = True
            elif k == "CallExpr" and self.p.call_targets(n):
                everything = True
            if t is not None:
                b = strip(t)
                for x in walk(b):
                    if x.get("k") == "MemberExpr" and x["ref"].get("dk") == "Field":
                        names.add(x["ref"]["name"])
                while b.get("k") == "MemberExpr" and b.get("c"):
                    b = strip(b["c"][0])
                if b.get("k") == "DeclRefExpr":
                    did = b["ref"]["did"]
                    self.havoc_n += 1
                    v = self.obj("%s#%s~%d" % (b["ref"]["name"], did, self.havoc_n), b.get("t", ""))
                    self.memo[did] = v
                    self.overrides[did] = v
        self.havoc_n += 1
        if self.havoc_epoch is None or isinstance(self.havoc_epoch, _AllEpoch):
            self.havoc_epoch = {}
        if everything:
            self._mutable_leaf("x")
            names |= set(self._mut_fields or ())
        for path in list(self.store):
            comps = re.split(r"[.\[\]()]", path)
            if any(c in names for c in comps):
                del self.store[path]
        for nm in names:
            self.havoc_epoch[nm] = self.havoc_n

    def open_method(self, qn, this_val, argvals=()):
        fns = self.p.fns(qn)
        if len(fns) != 1 or not self.openable(fns[0]):
            raise Decline("%s cannot be opened" % qn)
        sub = self.open(fns[0], list(argvals), this_val)
        r = sub.exec_block(fns[0]["body"].get("c", []))
        self.assumptions += sub.assumptions
        return r

    def field(self, v, fname, ftype):
        if isinstance(v, Rec):
            if fname not in v.f:
                raise Decline("record %s has no field %s" % (v.cls, fname))
            return v.f[fname]
        if isinstance(v, Lazy):
            return self.obj(v.path + "." + fname, ftype)
        raise Decline("field %s of a non-record value" % fname)

    def materialize(self, v, depth=0):
        """Deep copy of the current state of a value (by-value copy semantics)."""
        if isinstance(v, Lazy) and v.cls in self.p.records and depth < 4:
            r = self.p.records[v.cls]
            return Rec(v.cls, {f["name"]: self.materialize(self.obj(v.path + "." + f["name"], f["t"]), depth + 1) for f in r["fields"]})
        if isinstance(v, Rec):
            return Rec(v.cls, {k: self.materialize(x, depth + 1) for k, x in v.f.items()})
        if isinstance(v, Tup):
            return Tup([self.materialize(x, depth + 1) for x in v.items])
        return v

    def record_of(self, v):
        """Materialise a Lazy of a repository record class into a Rec of its fields (one level)."""
        if isinstance(v, Rec):
            return v
        if isinstance(v, Lazy):
            r = self.p.records.get(v.cls)
            if r is None:
                raise Decline("class %s unknown" % v.cls)
            return Rec(v.cls, {f["name"]: self.obj(v.path + "." + f["name"], f["t"]) for f in r["fields"]})
        raise Decline("not a record")

    # ---- locals ----------------------------------------------------------------------------------
    def _var_decl(self, did):
        if self._decls is None:
            self._decls = {}
            roots = [self.fn["body"]] if isinstance(self.fn.get("body"), dict) else []
            for r in roots:
                for n in walk(r):
                    if n.get("k") in ("Var", "Decomposition") and "did" in n:
                        if n["did"] in self._decls:
                            continue   # range-for variable already registered with its loop
                        self._decls[n["did"]] = n
                        for i, b in enumerate(n.get("bindings", [])):
                            self._decls[b["did"]] = ("binding", n, i)
                    if n.get("k") == "CXXForRangeStmt":
                        self._decls[n["var"]["did"]] = ("rangevar", n)
            self._writes = self._written_vars()
        return self._decls.get(did)

    def _written_vars(self):
        w = set()
        for n in walk(self.fn["body"]):
            k = n.get("k")
            t = None
            if k in ("BinaryOperator", "CompoundAssignOperator") and (n.get("op") == "=" or k == "CompoundAssignOperator"):
                t = n["c"][0]
            elif k == "UnaryOperator" and n.get("op") in ("++", "--"):
                t = n["c"][0]
            elif k == "CXXOperatorCallExpr" and n.get("op") in ("=", "+=", "-=", "*=", "/=", "++", "--") and len(n.get("c", [])) >= 2:
                t = n["c"][1]
            elif k == "CXXMemberCallExpr" and not n.get("cconst"):
                t = call_obj(n)
            if t is not None:
                b = strip(t)
                while b.get("k") == "MemberExpr" and b.get("c"):
                    b = strip(b["c"][0])
                if b.get("k") == "DeclRefExpr":
                    w.add(b["ref"]["did"])
        return w

    def local(self, ref, node):
        did = ref["did"]
        if did in self.overrides:
            return self.overrides[did]
        if did in self.memo:
            return self.memo[did]
        d = self._var_decl(did)
        t = node.get("t", "")
        name = "%s#%s" % (ref["name"], did)
        if d is None:
            # parameter (or captured variable)
            v = self.obj(ref["name"], t)
            self.memo[did] = v
            return v
        if isinstance(d, tuple) and d[0] == "binding":
            _, decl, i = d
            base = self.local_decl_value(decl)
            if isinstance(base, Tup):
                v = base.items[i]
            elif isinstance(base, Lazy):
                v = self.obj(base.path + "." + ("first", "second", "third")[i] if i < 3 else "%s.%d" % (base.path, i), t)
            elif isinstance(base, Rec):
                v = list(base.f.values())[i]
            else:
                raise Decline("structured binding of a scalar")
            self.memo[did] = v
            return v
        if isinstance(d, tuple) and d[0] == "rangevar":
            # element of the iterated container: keeps the owner's path visible ("c1.node_lst_[*n1]")
            try:
                rng = self.ev(d[1]["range"])
            except Decline:
                rng = None
            if isinstance(rng, Lazy):
                v = self.obj("%s[*%s]" % (rng.path, ref["name"]), t)
            else:
                v = self.obj(name, t)
            self.memo[did] = v
            return v
        single = ("const" in (d.get("t") or "").split("<")[0]) or d.get("t", "").endswith("&") or did not in self._writes
        if single and isinstance(d.get("init"), dict) and self.lazy_scalars and is_scalar_type(d.get("t", "")):
            v = self.sym(name)
            self.local_syms[v] = did
        elif single and isinstance(d.get("init"), dict):
            v = self.local_decl_value(d)
        else:
            v = self.obj(name, d.get("t", t))
        self.memo[did] = v
        return v

    def local_decl_value(self, d):
        key = ("decl", d["did"])
        if key in self.memo:
            return self.memo[key]
        self.memo[key] = None
        v = self.coerce(self.ev(d["init"]), d.get("t", ""))
        self.memo[key] = v
        return v

    def definition(self, did):
        """One-level definition of a lazily kept scalar local."""
        d = self._var_decl(did)
        return self.local_decl_value(d)

    def expand_once(self, expr):
        subs = {}
        for a in expr.free_symbols:
            if a in self.local_syms:
                subs[a] = self.definition(self.local_syms[a])
        if not subs:
            return expr, False
        return expr.subs(subs, simultaneous=True), True

    def point_value(self, expr, seed):
        """Exact value of expr at a pseudo-random rational point (atoms -> rationals; lazily kept scalar
        locals -> value of their definition at the same point)."""
        import random
        rng = random.Random(seed)
        assign = {}
        # deterministic assignment by atom name so that every call with the same seed agrees
        def val_of(sym_):
            if sym_ in assign:
                return assign[sym_]
            if sym_ in self.local_syms:
                assign[sym_] = None
                d = self.definition(self.local_syms[sym_])
                v = ev(d)
                assign[sym_] = v
                return v
            r = random.Random(hash((seed, sym_.name)) & 0xFFFFFFFF)
            v = sp.Rational(r.randint(1, 97), r.randint(1, 13)) * (1 if r.random() < 0.7 else -1)
            if any(sym_.name.endswith(x) or x in sym_.name for x in self.nonneg_names):
                v = abs(v)
            assign[sym_] = v
            return v
        def ev(e):
            subs = {a: val_of(a) for a in e.free_symbols}
            return e.subs(subs, simultaneous=True)
        return ev(expr)

    def prove_zero(self, expr, rounds=8):
        """Decides whether the scalar expression is identically zero.
        Refutation: a non-zero exact value at a rational point (sound: a polynomial / rational identity
        holds at every point of its domain).  Proof: polynomial / rational normal form, with on-demand
        def-use expansion of scalar locals.  Neither => Decline (analysis-broken, never a guess)."""
        if expr == 0:
            return True
        for seed in (11, 29):
            try:
                v = self.point_value(expr, seed)
                v = sp.nsimplify(v) if v.is_number and not v.is_Rational and False else v
                if v.is_number:
                    if v.is_Rational:
                        if v != 0:
                            self.last_witness = "value %s at a rational sample point" % v
                            return False
                    else:
                        fv = sp.N(v, 40)
                        if abs(fv) > sp.Float("1e-25"):
                            self.last_witness = "value %s at a sample point" % sp.N(v, 8)
                            return False
            except (ZeroDivisionError, Decline):
                raise
            except Exception:
                pass
        cur = expr
        for _ in range(rounds):
            if sp.count_ops(cur) > 6000:
                break
            if zero(cur):
                return True
            cur, changed = self.expand_once(cur)
            if not changed:
                break
        raise Decline("identity holds at the sample points but could not be brought to normal form (size %d)" % sp.count_ops(cur))

    def coerce(self, v, t):
        """Implicit conversions that matter: double -> float/int truncation is NOT modelled (declined
        for ints), record copy is identity."""
        return v

    # ---- evaluation -----------------------------------------------------------------------------
    def num(self, s):
        try:
            return sp.Rational(str(Decimal(s)))
        except Exception:
            return sp.Float(s)

    def ev(self, e):
        self.depth += 1
        if self.depth > 60:
            self.depth -= 1
            raise Decline("expression nesting too deep")
        try:
            return self._ev(e)
        finally:
            self.depth -= 1

    def _ev(self, e):
        e = strip(e)
        k = e.get("k")
        if k == "IntegerLiteral":
            return sp.Integer(int(e["v"]))
        if k == "FloatingLiteral":
            return self.num(e["v"])
        if k == "CXXBoolLiteralExpr":
            return sp.true if e.get("v") else sp.false
        if k == "DeclRefExpr":
            ref = e["ref"]
            if ref.get("dk") in ("Var", "ParmVar", "Binding", "Decomposition"):
                if "qn" in ref and ref.get("dk") == "Var":
                    g = self.p.globals.get(ref["name"])
                    if g and isinstance(g.get("init"), dict) and "const" in g.get("t", ""):
                        return SymEval(self.p, {"body": {"k": "CompoundStmt", "c": []}, "key": "<g>", "qn": "<g>", "params": [], "file": ""}).ev(g["init"]) if False else self.obj(ref["qn"], e.get("t", ""))
                    return self.obj(ref["qn"], e.get("t", ""))
                return self.local(ref, e)
            if ref.get("dk") == "EnumConstant":
                return self.sym(ref.get("qn") or ref["name"])
            raise Decline("reference to %s" % ref.get("dk"))
        if k == "CXXThisExpr":
            if self.this_val is not None:
                return self.this_val
            return Lazy(self.this_path, clean_type(e.get("t", "")))
        if k == "MemberExpr":
            ref = e["ref"]
            if ref.get("dk") == "Field":
                base = self.ev(e["c"][0]) if e.get("c") else (self.this_val or Lazy(self.this_path, self.fn.get("cls", "")))
                return self.field(base, ref["name"], e.get("t", ""))
            if ref.get("dk") == "Var":   # static data member
                return self.static_member(ref, e)
            raise Decline("member reference to %s" % ref.get("dk"))
        if k == "UnaryOperator":
            op = e["op"]
            if op == "-":
                return self.neg(self.ev(e["c"][0]))
            if op == "+":
                return self.ev(e["c"][0])
            if op in ("*", "&"):
                return self.ev(e["c"][0])
            if op == "!":
                v = self.ev(e["c"][0])
                return sp.Not(v) if isinstance(v, sp.Basic) and v.is_Boolean else self.atom_fn("not", [v], "bool")
            raise Decline("unary %s" % op)
        if k == "BinaryOperator":
            op = e["op"]
            if op in ("+", "-", "*", "/"):
                a, b = self.ev(e["c"][0]), self.ev(e["c"][1])
                if not (isinstance(a, sp.Basic) and isinstance(b, sp.Basic)):
                    raise Decline("arithmetic on non-scalars")
                if op == "/" and is_int(e["c"][0]) and is_int(e["c"][1]):
                    raise Decline("integer division")
                return {"+": a + b, "-": a - b, "*": a * b, "/": a / b}[op]
            if op in ("<", ">", "<=", ">=", "==", "!="):
                a, b = self.ev(e["c"][0]), self.ev(e["c"][1])
                if isinstance(a, sp.Basic) and isinstance(b, sp.Basic):
                    return {"<": sp.Lt, ">": sp.Gt, "<=": sp.Le, ">=": sp.Ge, "==": sp.Eq, "!=": sp.Ne}[op](a, b, evaluate=False)
                raise Decline("comparison of non-scalars")
            if op in ("&&", "||"):
                a, b = self.ev(e["c"][0]), self.ev(e["c"][1])
                return (sp.And if op == "&&" else sp.Or)(a, b, evaluate=False)
            if op == ",":
                return self.ev(e["c"][1])
            raise Decline("binary %s" % op)
        if k == "ConditionalOperator":
            c = strip(e["c"][0])
            if c.get("k") == "BinaryOperator" and c.get("op") in ("!=", "==") and strip(c["c"][1]).get("k") in ("FloatingLiteral", "IntegerLiteral") and float(strip(c["c"][1])["v"]) == 0.0 \
                    and _divides_by(e["c"][1] if c["op"] == "!=" else e["c"][2], c["c"][0]):
                # 'd != 0 ? x/d : fallback' (division guard): the quotient branch, under the assumption d != 0
                self.assumptions.append("%s != 0 (nonzero-guard idiom at %s:%s)" % (short(c["c"][0], 40), self.p.rel(self.fn.get("file", "")), e.get("l")))
                return self.ev(e["c"][1] if c["op"] == "!=" else e["c"][2])
            a, b = self.ev(e["c"][1]), self.ev(e["c"][2])
            if self.same(a, b):
                return a
            cond = self.ev(e["c"][0])
            # a condition over constants (e.g. a literal argument of an opened helper compared with a literal) selects its branch
            try:
                cv = sp.sympify(cond)
                if cv is sp.true or cv is sp.false:
                    return a if cv is sp.true else b
                if isinstance(cv, (sp.Eq, sp.Ne, sp.StrictLessThan, sp.LessThan, sp.StrictGreaterThan, sp.GreaterThan)) and not cv.free_symbols:
                    dv = cv.doit()
                    if dv is sp.true or dv is sp.false:
                        return a if dv is sp.true else b
            except (TypeError, sp.SympifyError):
                pass
            if isinstance(a, sp.Basic) and isinstance(b, sp.Basic):
                # (p < q) ? p : q  ==  min(p, q);   (p < q) ? q : p  ==  max(p, q)   (and the mirrored comparisons)
                try:
                    cv = sp.sympify(cond)
                    if isinstance(cv, (sp.StrictLessThan, sp.LessThan, sp.StrictGreaterThan, sp.GreaterThan)):
                        p_, q_ = cv.args
                        less = isinstance(cv, (sp.StrictLessThan, sp.LessThan))
                        if zero(sp.sympify(a) - p_) and zero(sp.sympify(b) - q_):
                            return (sp.Min if less else sp.Max)(p_, q_)
                        if zero(sp.sympify(a) - q_) and zero(sp.sympify(b) - p_):
                            return (sp.Max if less else sp.Min)(p_, q_)
                except (TypeError, sp.SympifyError):
                    pass
                return self.atom_fn("ite", [cond, a, b], e.get("t", "double"))
            raise Decline("conditional with different record branches")
        if k in ("CXXStaticCastExpr", "CStyleCastExpr", "CXXFunctionalCastExpr", "CXXConstCastExpr"):
            v = self.ev(e["c"][0])
            tt = clean_type(e.get("t", ""))
            ft = clean_type(strip(e["c"][0]).get("t", ""))
            if tt in ("int", "unsigned int", "long", "unsigned long", "short", "unsigned short") and ft in ("double", "float"):
                return self.atom_fn("trunc_" + tt.replace(" ", "_"), [v], tt)
            return v
        if k in ("CXXConstructExpr", "CXXTemporaryObjectExpr"):
            return self.construct(e)
        if k == "InitListExpr":
            items = [self.ev(c) for c in e.get("c", [])]
            cls = clean_type(e.get("t", ""))
            r = self.p.records.get(cls)
            if r and len(r["fields"]) == len(items):
                return Rec(cls, {f["name"]: v for f, v in zip(r["fields"], items)})
            if cls.startswith("std::array<") and len(items) == 1 and isinstance(items[0], Tup):
                return items[0]      # std::array is an aggregate around a C array: {{a, b, c}}
            return Tup(items)
        if k == "CXXStdInitializerListExpr":
            return self.ev(e["c"][0])
        if k == "CXXDefaultArgExpr":
            return self.ev(e["default_arg"])
        if k == "ArraySubscriptExpr":
            b, i = self.ev(e["c"][0]), self.ev(e["c"][1])
            return self.index(b, i, e.get("t", ""))
        if is_call(e):
            return self.call(e)
        if k == "LambdaExpr":
            raise Decline("lambda value")
        raise Decline("expression kind %s" % k)

    def static_member(self, ref, e):
        cls = ref["qn"].rsplit("::", 1)[0]
        r = self.p.records.get(cls)
        if r:
            for s in r.get("statics", []):
                if s["qn"] == ref["qn"] and isinstance(s.get("init"), dict) and s.get("constexpr"):
                    try:
                        return self.ev(s["init"])
                    except Decline:
                        break
        return self.obj(ref["qn"], e.get("t", ""))

    def neg(self, v):
        if isinstance(v, sp.Basic):
            return -v
        if isinstance(v, Rec):
            return Rec(v.cls, {k: self.neg(x) for k, x in v.f.items()})
        raise Decline("negation of an opaque object")

    def same(self, a, b):
        if isinstance(a, sp.Basic) and isinstance(b, sp.Basic):
            return zero(a - b)
        if isinstance(a, Rec) and isinstance(b, Rec) and a.cls == b.cls:
            return all(self.same(a.f[k], b.f[k]) for k in a.f)
        if isinstance(a, Lazy) and isinstance(b, Lazy):
            return a.path == b.path
        if isinstance(a, Tup) and isinstance(b, Tup) and len(a.items) == len(b.items):
            return all(self.same(x, y) for x, y in zip(a.items, b.items))
        if isinstance(a, Rec) and isinstance(b, Lazy):
            return self.same(a, self.record_of(b))
        if isinstance(a, Lazy) and isinstance(b, Rec):
            return self.same(self.record_of(a), b)
        return False

    # ---- atoms for opaque calls --------------------------------------------------------------------
    def key_of(self, v):
        if isinstance(v, sp.Basic):
            return sp.srepr(sp.nsimplify(v) if False else v)
        if isinstance(v, Lazy):
            return v.path
        if isinstance(v, Rec):
            return v.cls + "{" + ",".join(self.key_of(x) for x in v.f.values()) + "}"
        if isinstance(v, Tup):
            return "(" + ",".join(self.key_of(x) for x in v.items) + ")"
        return repr(v)

    def pretty(self, v):
        if isinstance(v, sp.Basic):
            return str(v)
        if isinstance(v, Lazy):
            return v.path
        if isinstance(v, Rec):
            return "{" + ",".join(self.pretty(x) for x in v.f.values()) + "}"
        if isinstance(v, Tup):
            return "(" + ",".join(self.pretty(x) for x in v.items) + ")"
        return repr(v)

    def atom_fn(self, name, args, rtype):
        path = "%s(%s)" % (name, ",".join(self.pretty(a) for a in args))
        self.atom_args.setdefault(path, list(args))
        return self.obj(path, rtype)

    def index(self, base, idx, etype):
        if isinstance(base, Tup) and isinstance(idx, sp.Integer):
            return base.items[int(idx)]
        if isinstance(base, Lazy):
            return self.obj("%s[%s]" % (base.path, self.pretty(idx)), etype)
        raise Decline("subscript of a non-container value")

    # ---- construction ------------------------------------------------------------------------------
    def construct(self, e):
        cls = e.get("cls", "")
        args = e.get("c", [])
        if e.get("copy") or e.get("move"):
            return self.ev(args[0])
        ct = clean_type(e.get("t", ""))
        if ct.startswith("std::pair<") or ct.startswith("std::tuple<") or ct.startswith("std::array<"):
            return Tup([self.ev(a) for a in args])
        if ct.startswith("std::optional<") and len(args) == 1:
            return self.ev(args[0])
        rec = self.p.records.get(cls)
        if rec is None:
            if len(args) == 1:
                return self.ev(args[0])
            raise Decline("construction of %s" % ct)
        tks = self.p.call_targets(e)
        vals = [self.ev(a) for a in args]
        # default member initialisers
        fields = {}
        for f in rec["fields"]:
            if isinstance(f.get("init"), dict):
                fields[f["name"]] = SymEval(self.p, {"body": {"k": "CompoundStmt", "c": []}, "key": "<nsdmi>", "qn": "<nsdmi>", "params": [], "file": rec["file"]}).ev(f["init"])
            else:
                fields[f["name"]] = None
        if not args and not tks:
            self.fresh_n = getattr(self, "fresh_n", 0) + 1
            for fname, v in list(fields.items()):
                if v is None:
                    ft = next((f["t"] for f in rec["fields"] if f["name"] == fname), "")
                    fields[fname] = self.obj("<indeterminate %s::%s #%d>" % (cls, fname, self.fresh_n), ft)
            return Rec(cls, fields)
        if len(tks) != 1:
            raise Decline("constructor of %s not available" % cls)
        ctor = self.p.functions[next(iter(tks))]
        sub = self.open(ctor, vals, Rec(cls, fields))
        for i in ctor.get("inits", []):
            if i.get("member") and isinstance(i.get("init"), dict):
                if strip(i["init"]).get("k") == "CXXDefaultInitExpr":
                    continue   # default member initialiser, already evaluated above
                if not i.get("written"):
                    # implicit default construction of a class-type member
                    try:
                        sub.this_val.f[i["name"]] = sub.ev(i["init"])
                    except Decline:
                        pass
                    continue
                sub.this_val.f[i["name"]] = sub.ev(i["init"])
        if isinstance(ctor.get("body"), dict):
            for st in ctor["body"].get("c", []):
                try:
                    sub.exec_stmt(st)
                except Decline:
                    # a call the engine cannot open (omp_init_lock(&lock_) ...): it may only affect the
                    # members it names, which become indeterminate
                    for x in walk(st):
                        if x.get("k") == "MemberExpr" and x["ref"].get("dk") == "Field" and x["ref"]["name"] in sub.this_val.f:
                            sub.this_val.f[x["ref"]["name"]] = None
        self.assumptions += sub.assumptions
        r = sub.this_val
        self.fresh_n = getattr(self, "fresh_n", 0) + 1
        for fname, v in list(r.f.items()):
            if v is None:
                ft = next((f["t"] for f in rec["fields"] if f["name"] == fname), "")
                r.f[fname] = self.obj("<indeterminate %s::%s #%d>" % (cls, fname, self.fresh_n), ft)
        return r

    # ---- calls ---------------------------------------------------------------------------------------
    def open(self, callee, argvals, this_val):
        sub = SymEval(self.p, callee)
        sub.atoms = self.atoms
        sub.atom_args = self.atom_args
        sub.store = self.store
        sub.havoc_epoch = self.havoc_epoch
        sub.havoc_n = self.havoc_n
        sub.root_fn = getattr(self, "root_fn", None) or self.fn
        sub._mut_fields = getattr(self, "_mut_fields", None)
        sub.this_val = this_val
        sub.depth = self.depth
        for p, v in zip(callee.get("params", []), argvals):
            sub.overrides[p["did"]] = v
        return sub

    def openable(self, callee):
        b = callee.get("body")
        if not isinstance(b, dict) or callee.get("pseudo"):
            return False
        stmts = b.get("c", [])
        if len(stmts) > 8:
            return False
        for n in walk(b):
            if n.get("k") in ("ForStmt", "WhileStmt", "DoStmt", "CXXForRangeStmt", "IfStmt", "SwitchStmt", "CXXTryStmt", "LambdaExpr", "CXXThrowExpr") or "omp" in n and n.get("omp") != "atomic":
                return False
        return True

    def call(self, e):
        k = e.get("k")
        callee = e.get("callee", "")
        name = callee.split("::")[-1]
        args = call_args(e)
        # std math
        if callee in STD_FUN and len(args) == 1:
            return STD_FUN[callee](self.ev(args[0]))
        if callee in ("std::atan2",) and len(args) == 2:
            return sp.atan2(self.ev(args[0]), self.ev(args[1]))
        if callee in ("std::pow", "pow") and len(args) == 2:
            return self.ev(args[0]) ** self.ev(args[1])
        if callee in ("std::max", "std::min") and len(args) == 2:
            a, b = self.ev(args[0]), self.ev(args[1])
            return (sp.Max if callee == "std::max" else sp.Min)(a, b)
        if callee in ("std::make_pair", "std::make_tuple", "std::tie"):
            return Tup([self.ev(a) for a in args])
        if callee in ("std::move", "std::forward", "std::as_const", "std::get"):
            if callee == "std::get":
                raise Decline("std::get")
            return self.ev(args[0])
        if k == "CXXOperatorCallExpr" and e.get("op") in ("->", "*") and len(e["c"]) == 2 and not self.p.call_targets(e):
            return self.ev(e["c"][1])      # smart pointer dereference
        if k == "CXXOperatorCallExpr" and e.get("op") == "[]" and not self.p.call_targets(e):
            return self.index(self.ev(e["c"][1]), self.ev(e["c"][2]), e.get("t", ""))
        if k == "CXXMemberCallExpr" and not self.p.call_targets(e):
            o = call_obj(e)
            if name in ("get", "value", "operator*", "operator->") and not args:
                return self.ev(o)
            if name in ("at",) and len(args) == 1:
                return self.index(self.ev(o), self.ev(args[0]), e.get("t", ""))
            if name in ("first", "second"):
                pass
            ov = self.ev(o)
            return self.atom_fn(self.pretty(ov) + "." + name, [self.ev(a) for a in args], e.get("t", ""))
        tks = self.p.call_targets(e)
        if len(tks) == 1 and not e.get("virtual"):
            tf = self.p.functions[next(iter(tks))]
            if self.openable(tf):
                this_val = None
                o = call_obj(e)
                if o is not None:
                    this_val = self.ev(o)
                elif tf.get("cls") and not tf.get("static"):
                    this_val = self.this_val or Lazy(self.this_path, tf.get("cls"))
                vals = [self.ev(a) for a in args]
                sub = self.open(tf, vals, this_val)
                r = sub.exec_block(tf["body"].get("c", []))
                self.assumptions += sub.assumptions
                self.opened.add(tf["qn"])
                if r is None and clean_type(tf.get("ret", "")) != "void":
                    raise Decline("opened %s but it returned nothing" % tf["qn"])
                return r
        # opaque call: identical arguments -> identical atom
        vals = []
        o = call_obj(e)
        if o is not None:
            vals.append(self.ev(o))
        for a in args:
            try:
                vals.append(self.ev(a))
            except Decline:
                vals.append(Lazy("?" + render(a), "?"))
        if o is not None and isinstance(vals[0], Lazy):
            return self.obj("%s.%s(%s)" % (vals[0].path, name, ",".join(self.pretty(v) for v in vals[1:])), e.get("t", ""))
        return self.atom_fn(callee or render(e["c"][0]), vals, e.get("t", ""))

    # ---- straight-line execution (store summaries) ---------------------------------------------------
    def lvalue_path(self, e):
        """-> ('leaf', path) | ('rec', Lazy/path) | ('recfield', Rec, name) | ('local', did)"""
        e = strip(e)
        k = e.get("k")
        if k == "MemberExpr" and e["ref"].get("dk") == "Field":
            base_e = e["c"][0] if e.get("c") else None
            base = self.ev(base_e) if base_e is not None else (self.this_val or Lazy(self.this_path, self.fn.get("cls", "")))
            if isinstance(base, Rec):
                return ("recfield", base, e["ref"]["name"])
            if isinstance(base, Lazy):
                return ("path", base.path + "." + e["ref"]["name"], e.get("t", ""))
            raise Decline("assignment through a scalar")
        if k == "DeclRefExpr":
            return ("local", e["ref"]["did"], e)
        if k == "UnaryOperator" and e.get("op") == "*":
            return self.lvalue_path(e["c"][0])
        if k == "CXXOperatorCallExpr" and e.get("op") in ("*", "->") and len(e["c"]) == 2:
            return self.lvalue_path(e["c"][1])
        v = self.ev(e)
        if isinstance(v, Lazy):
            return ("path", v.path, v.cls)
        raise Decline("unsupported assignment target %s" % short(e, 40))

    def assign(self, target, v):
        lv = self.lvalue_path(target)
        if lv[0] == "recfield":
            lv[1].f[lv[2]] = v
        elif lv[0] == "local":
            self.memo[lv[1]] = v
            self.overrides[lv[1]] = v
        else:
            path, t = lv[1], lv[2]
            self.write_path(path, t, v)

    def write_path(self, path, t, v):
        ct = clean_type(t)
        if isinstance(v, sp.Basic):
            self.store[path] = v
            return
        if isinstance(v, Lazy):
            v = self.record_of(v)
        if isinstance(v, Rec):
            r = self.p.records.get(v.cls)
            for f in r["fields"]:
                self.write_path(path + "." + f["name"], f["t"], v.f[f["name"]])
            return
        raise Decline("cannot store %r" % (v,))

    def read_lvalue(self, target):
        return self.ev(target)

    def exec_block(self, stmts):
        """Executes straight-line statements; returns the value of a 'return' if one is reached."""
        for s in stmts:
            r = self.exec_stmt(s)
            if r is not None:
                return r[0]
        return None

    def exec_tolerant(self, s):
        """exec_stmt that summarises what it cannot execute: a statement the engine declines (construction of a library object,
        a loop, an opaque call) is replaced by 'the variables it writes hold unknown values'; compound statements are entered so
        that one such statement does not hide its straight-line neighbours. Returns the value of a reached return, else None."""
        if s.get("k") == "CompoundStmt":
            for c in s.get("c", []):
                r = self.exec_tolerant(c)
                if r is not None:
                    return r
            return None
        try:
            return self.exec_stmt(s)
        except Decline:
            self.havoc(s)
            return None

    def exec_stmt(self, s):
        k = s.get("k")
        if k == "CompoundStmt":
            for c in s.get("c", []):
                r = self.exec_stmt(c)
                if r is not None:
                    return r
            return None
        if k == "DeclStmt":
            for d in s.get("decls", []):
                if d.get("k") in ("Var", "Decomposition"):
                    if isinstance(d.get("init"), dict):
                        v = self.ev(d["init"])
                        if not d.get("t", "").rstrip().endswith("&") and not d.get("t", "").rstrip().endswith("*"):
                            v = self.materialize(v)     # a by-value declaration copies the current state
                    else:
                        v = self.obj("%s#%s" % (d["name"], d["did"]), d.get("t", ""))
                    self.memo[d["did"]] = v
                    self.overrides[d["did"]] = v
                    if d.get("k") == "Decomposition":
                        self._var_decl(d["did"])
                        self.memo[("decl", d["did"])] = v
            return None
        if k == "ReturnStmt":
            if isinstance(s.get("value"), dict):
                return (self.ev(s["value"]),)
            return (None,)
        if k == "NullStmt":
            return None
        if k == "IfStmt" and s.get("else") is None:
            # clamp idiom: if(x > U) x = U;  /  if(x < L) x = L;  (either operand order)  ==  x = min(x, U) / x = max(x, L)
            c = strip(s["cond"])
            th = s["then"]
            sts = th.get("c", []) if th.get("k") == "CompoundStmt" else [th]
            if c.get("k") == "BinaryOperator" and c.get("op") in ("<", ">", "<=", ">=") and len(sts) == 1:
                a = strip(sts[0])
                if a.get("k") == "BinaryOperator" and a.get("op") == "=":
                    tgt, val = a["c"][0], a["c"][1]
                    l, r = c["c"][0], c["c"][1]
                    less = c["op"] in ("<", "<=")
                    kind = None
                    if render(strip(tgt)) == render(strip(l)) and render(strip(val)) == render(strip(r)):
                        kind = "max" if less else "min"        # if(x < L) x = L  -> max(x, L)
                    elif render(strip(tgt)) == render(strip(r)) and render(strip(val)) == render(strip(l)):
                        kind = "min" if less else "max"        # if(U < x) x = U  -> min(x, U)
                    if kind is not None:
                        cur, bound = self.ev(tgt), self.ev(val)
                        if isinstance(cur, sp.Basic) and isinstance(bound, sp.Basic):
                            self.assign(tgt, (sp.Min if kind == "min" else sp.Max)(cur, bound))
                            return None
            raise Decline("statement kind IfStmt")
        if "omp" in s and s.get("omp") == "atomic" and isinstance(s.get("body"), dict):
            return self.exec_stmt(s["body"])
        e = strip(s)
        ek = e.get("k")
        if ek in ("BinaryOperator", "CompoundAssignOperator") and (e.get("op") == "=" or ek == "CompoundAssignOperator"):
            rhs = self.ev(e["c"][1])
            if ek == "CompoundAssignOperator":
                cur = self.ev(e["c"][0])
                op = e["op"][0]
                rhs = {"+": cur + rhs, "-": cur - rhs, "*": cur * rhs, "/": cur / rhs}[op]
            self.assign(e["c"][0], rhs)
            return None
        if ek == "BinaryOperator" and e.get("op") == ",":
            self.exec_stmt(e["c"][0])
            self.exec_stmt(e["c"][1])
            return None
        if ek == "CXXOperatorCallExpr" and e.get("op") == "=" and len(e["c"]) == 3:
            tks = self.p.call_targets(e)
            # defaulted copy assignment of a record: store the value
            self.assign(e["c"][1], self.ev(e["c"][2]))
            return None
        if is_call(e):
            tks = self.p.call_targets(e)
            if len(tks) == 1 and not e.get("virtual"):
                tf = self.p.functions[next(iter(tks))]
                if self.openable(tf):
                    o = call_obj(e)
                    this_val = self.ev(o) if o is not None else (self.this_val or Lazy(self.this_path, tf.get("cls", "")))
                    vals = [self.ev(a) for a in call_args(e)]
                    sub = self.open(tf, vals, this_val)
                    sub.exec_block(tf["body"].get("c", []))
                    self.assumptions += sub.assumptions
                    self.opened.add(tf["qn"])
                    return None
            raise Decline("statement calls %s, which cannot be opened" % e.get("callee"))
        if ek in ("UnaryOperator",) and e.get("op") in ("++", "--"):
            cur = self.ev(e["c"][0])
            self.assign(e["c"][0], cur + (1 if e["op"] == "++" else -1))
            return None
        if not any(is_call(x) or x.get("k") in ("CompoundAssignOperator",) or (x.get("k") in ("BinaryOperator",) and x.get("op") == "=") or (x.get("k") == "UnaryOperator" and x.get("op") in ("++", "--")) for x in walk(e)):
            return None   # expression statement without side effects (e.g. assert under NDEBUG)
        raise Decline("statement kind %s" % (ek or k))


class _AllEpoch(dict):
    def __init__(self, n):
        super().__init__()
        self.n = n

    def get(self, k, d=None):
        return self.n

    def __bool__(self):
        return True


def path_root(path):
    return path.split(".")[0]


def _divides_by(branch, tested):
    key = render(tested)
    for x in walk(branch):
        if x.get("k") == "BinaryOperator" and x.get("op") == "/" and render(x["c"][1]) == key:
            return True
        if x.get("k") == "CXXOperatorCallExpr" and x.get("op") == "/" and len(x.get("c", [])) == 3 and render(x["c"][2]) == key:
            return True
    return False


def is_int(e):
    t = clean_type(strip(e).get("t", ""))
    return t in ("int", "unsigned int", "long", "unsigned long", "short", "unsigned short", "char", "unsigned char")


def zero(expr):
    """Is the scalar expression identically zero?  (polynomial / rational normal form)"""
    if expr == 0:
        return True
    try:
        e = sp.expand(expr)
        if e == 0:
            return True
        e = sp.cancel(sp.together(e))
        if e == 0:
            return True
        n, d = sp.fraction(e)
        n = sp.expand(n)
        if n == 0:
            return True
        if n.has(sp.sqrt) or any(isinstance(a, sp.Pow) and a.exp.is_Rational and not a.exp.is_Integer for a in n.atoms(sp.Pow)):
            return sp.simplify(n) == 0
        return False
    except Exception:
        return False


def vec_zero(v):
    if isinstance(v, Rec):
        return all(zero(x) for x in v.f.values())
    if isinstance(v, sp.Basic):
        return zero(v)
    return False


def vec_add(a, b):
    if isinstance(a, Rec) and isinstance(b, Rec):
        return Rec(a.cls, {k: a.f[k] + b.f[k] for k in a.f})
    raise Decline("sum of non-records")


def translation_weight(ev, v, position_atoms, shift=None):
    """Affine weight of value v under a common translation of all position atoms: returns the list of
    per-component derivatives d v / d t (t = translation along x, y, z) as Rec/scalars evaluated
    symbolically: substitute atom.{dx_,dy_,dz_} -> atom + t and differentiate."""
    tx, ty, tz = sp.symbols("_tx _ty _tz", real=True)
    sub = {}
    for name, s in list(ev.atoms.items()):
        for pa in position_atoms:
            if pa(name):
                if name.endswith(".dx_"):
                    sub[s] = s + tx
                elif name.endswith(".dy_"):
                    sub[s] = s + ty
                elif name.endswith(".dz_"):
                    sub[s] = s + tz
    def w(x):
        y = x.subs(sub, simultaneous=True)
        return [sp.simplify(sp.diff(y, t)) for t in (tx, ty, tz)], sp.simplify(y - x - sum(sp.diff(y, t) * t for t in (tx, ty, tz)))
    return w, sub


class Invariance:
    """Compositional translation typing.  A scalar is weight 0 iff substituting every position atom
    x -> x + t leaves it unchanged, with lazily kept scalar locals treated as constants *provided* each of
    them is itself weight 0 by its own definition (memoised).  A vector is weight w in {0, 1} iff the
    substitution changes it by w*t."""

    def __init__(self, ev, is_position_atom):
        self.ev = ev
        self.is_pos = is_position_atom
        self.t = sp.symbols("_tx _ty _tz", real=True)
        self.memo = {}

    def shift_map(self, expr):
        sub = {}
        for a in expr.free_symbols:
            n = a.name
            if a in self.ev.local_syms:
                continue
            if self.is_pos(n):
                if n.endswith(".dx_"):
                    sub[a] = a + self.t[0]
                elif n.endswith(".dy_"):
                    sub[a] = a + self.t[1]
                elif n.endswith(".dz_"):
                    sub[a] = a + self.t[2]
        return sub

    def scalar_weight0(self, expr, why=None):
        """True / False (with self.reason) ; raises Decline if undecidable."""
        expr = sp.sympify(expr)
        if isinstance(expr, (sp.logic.boolalg.Boolean, sp.core.relational.Relational)) and not expr.is_Symbol:
            # a comparison / Boolean combination is invariant when each of its operands is
            return all(self.scalar_weight0(a_) for a_ in expr.args)
        if isinstance(expr, sp.Piecewise):
            return all(self.scalar_weight0(v_) and self.scalar_weight0(c_) for v_, c_ in expr.args if c_ is not sp.true) and all(self.scalar_weight0(v_) for v_, c_ in expr.args if c_ is sp.true)
        for a in expr.free_symbols:
            if a in self.ev.local_syms:
                did = self.ev.local_syms[a]
                if did not in self.memo:
                    self.memo[did] = None
                    ok = self.scalar_weight0(self.ev.definition(did))
                    self.memo[did] = ok
                    if not ok:
                        self.reason = "local '%s' is not translation invariant: %s" % (a.name.split("#")[0], getattr(self, "reason", ""))
                if self.memo[did] is False:
                    if not getattr(self, "reason", None):
                        self.reason = "depends on local '%s' which is not translation invariant" % a.name.split("#")[0]
                    return False
        sub = self.shift_map(expr)
        if not sub:
            return True
        d = expr.subs(sub, simultaneous=True) - expr
        ok = self.ev.prove_zero(d)
        if not ok:
            self.reason = "%s changes under a common translation (%s)" % (str(expr)[:80], getattr(self.ev, "last_witness", ""))
        return ok

    def vector_weight(self, rec):
        """0, 1 or None (neither) for a vec3-like Rec."""
        comps = list(rec.f.values())
        if len(comps) != 3:
            raise Decline("not a 3-vector")
        w0 = True
        w1 = True
        for i, c in enumerate(comps):
            c = sp.sympify(c)
            for a in c.free_symbols:
                if a in self.ev.local_syms:
                    if not self.scalar_weight0(a):
                        return None
            sub = self.shift_map(c)
            d = c.subs(sub, simultaneous=True) - c
            if w0 and not self.ev.prove_zero(d):
                w0 = False
            if w1 and not self.ev.prove_zero(d - self.t[i]):
                w1 = False
        if w0:
            return 0
        if w1:
            return 1
        self.reason = "vector %s is neither invariant nor a point under translation" % self.ev.pretty(rec)[:100]
        return None
