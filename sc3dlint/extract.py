"""Extraction: /repo working tree -> compile database -> sc3d-extract per TU and configuration.

Nothing here encodes a property.  The compile database is regenerated from /repo's
CMakeLists on every run (configure only, in a scratch directory that is removed on
exit) so the analysed flags are the product's own flags.
"""
import json
import os
import shlex
import shutil
import subprocess
import tempfile
import time
from concurrent.futures import ThreadPoolExecutor

REPO = os.environ.get("SC3D_REPO", "/repo")
HERE = os.path.dirname(os.path.abspath(__file__))
EXTRACT = os.path.join(os.path.dirname(HERE), "tools", "sc3d-extract")
RESOURCE_DIR = "/usr/lib/llvm-14/lib/clang/14.0.6"

ALL_CONFIGS = [(1, 0), (0, 0), (2, 0), (1, 1), (0, 1), (2, 1)]  # (CONTACT_MODEL_INDEX, DYNAMIC_MODEL_INDEX)
DEFAULT_CONFIG = (1, 0)


_LAST_UNITS = None


class AnalysisBroken(Exception):
    """The analysis itself could not be carried out (exit code 2): never a pass, never a violation."""


def _run(cmd, **kw):
    return subprocess.run(cmd, stdout=subprocess.PIPE, stderr=subprocess.STDOUT, text=True, **kw)


def compile_db(scratch):
    build = os.path.join(scratch, "cfg")
    r = _run(["cmake", "-G", "Ninja", "-S", REPO, "-B", build,
              "-DCMAKE_EXPORT_COMPILE_COMMANDS=ON", "-DCMAKE_BUILD_TYPE=Release"])
    db_path = os.path.join(build, "compile_commands.json")
    if r.returncode != 0 or not os.path.exists(db_path):
        raise AnalysisBroken("cmake configure of %s failed:\n%s" % (REPO, r.stdout[-2000:]))
    db = json.load(open(db_path))
    units = {}
    for e in db:
        f = os.path.realpath(e["file"])
        rel = os.path.relpath(f, REPO)
        # product translation units: src/** and main.cpp (tests, third-party lib/ and the
        # optional python bindings are not part of the analysed program)
        if not (rel == "main.cpp" or rel.startswith("src" + os.sep)):
            continue
        if rel.startswith(os.path.join("src", "python_bindings")):
            continue
        args = shlex.split(e["command"]) if "command" in e else list(e["arguments"])
        flags = []
        skip = False
        for a in args[1:]:
            if skip:
                skip = False
                continue
            if a in ("-o", "-MF", "-MT", "-MQ"):
                skip = True
                continue
            if a in ("-c", "-MD", "-MMD") or a == e["file"] or os.path.realpath(os.path.join(e["directory"], a)) == f and not a.startswith("-"):
                continue
            flags.append(a)
        units[f] = {"file": f, "dir": e["directory"], "flags": flags}
    # Members of the grid class templates that no product translation unit instantiates (e.g. uspg_3d::get_grid_content) are
    # part of the grids' interface all the same: one synthetic unit instantiates both templates explicitly, with the flags of a
    # product unit that is built with OpenMP, so that every member is parsed, resolved and analysed like product code.
    donor = next((u for u in units.values() if "-fopenmp" in u["flags"] and "contact_models" in u["file"]), None) or next((u for u in units.values() if "-fopenmp" in u["flags"]), None)
    if donor is not None and os.path.exists(os.path.join(REPO, "include", "uspg", "uspg_3d.hpp")):
        syn = os.path.join(scratch, "sc3d_grid_instances.cpp")
        with open(syn, "w") as fh:
            fh.write('#include "uspg_3d.hpp"\n#include "uspg_4d.hpp"\ntemplate class uspg_3d<unsigned short>;\ntemplate class uspg_4d<int>;\n')
        units[syn] = {"file": syn, "dir": donor["dir"], "flags": list(donor["flags"]) + ["-I" + os.path.join(REPO, "include", "uspg"), "-I" + os.path.join(REPO, "include", "math_modules"), "-I" + os.path.join(REPO, "include")], "synthetic": True}
    if len(units) < 20:
        raise AnalysisBroken("compile database lists only %d product translation units" % len(units))
    return [units[k] for k in sorted(units)]


def _extract_one(unit, cfg, outdir):
    cm, dm = cfg
    relname = os.path.basename(unit["file"]) if unit.get("synthetic") else os.path.relpath(unit["file"], REPO)
    out = os.path.join(outdir, "cm%d_dm%d__%s.json" % (cm, dm, relname.replace(os.sep, "__")))
    flags = [a for a in unit["flags"]]
    if not any(a.startswith("-std=") for a in flags):
        flags.append("-std=gnu++17")
    flags += ["-resource-dir=" + RESOURCE_DIR, "-w", "-ferror-limit=0",
              "-DSIMUCELL3D_VERIF",
              "-DSIMUCELL3D_VERIF_CONTACT_MODEL_INDEX=%d" % cm,
              "-DSIMUCELL3D_VERIF_DYNAMIC_MODEL_INDEX=%d" % dm]
    r = _run([EXTRACT, REPO + "/", out, unit["file"], "--"] + flags, cwd=unit["dir"])
    if not os.path.exists(out):
        raise AnalysisBroken("extractor produced no output for %s (%s):\n%s" % (unit["file"], cfg, r.stdout[-3000:]))
    return out


def _tree_key():
    import hashlib
    h = hashlib.sha1()
    h.update(REPO.encode())
    h.update(b"units-v2")
    h.update(str(os.path.getmtime(EXTRACT)).encode())
    for cmd in (["git", "-C", REPO, "rev-parse", "HEAD"], ["git", "-C", REPO, "diff", "HEAD"],
                ["git", "-C", REPO, "ls-files", "--others", "--exclude-standard"]):
        h.update(_run(cmd).stdout.encode())
    for f in _run(["git", "-C", REPO, "ls-files", "--others", "--exclude-standard"]).stdout.split():
        if f.startswith(("_b", "out/")):
            continue
        try:
            h.update(open(os.path.join(REPO, f), "rb").read())
        except OSError:
            pass
    return h.hexdigest()[:20]


def extract(configs, jobs=None, latent_openmp=False):
    """Returns (scratch_dir, {cfg: [json paths]}, stats). Caller removes scratch_dir."""
    if not os.path.exists(EXTRACT):
        raise AnalysisBroken("%s not built (run MANIFEST.setup_cmd: make -C /verif/tools)" % EXTRACT)
    t0 = time.time()
    scratch = tempfile.mkdtemp(prefix="sc3dlint.")
    try:
        units = compile_db(scratch)
        global _LAST_UNITS
        _LAST_UNITS = units
        outdir = os.path.join(scratch, "ast")
        os.makedirs(outdir)
        jobs = jobs or (os.cpu_count() or 4)
        res = {}
        cache = os.environ.get("SC3D_DEV_CACHE")      # development sweeps only; never set by a registered command
        key = _tree_key() if cache else None
        todo = []
        for c in configs:
            cdir = os.path.join(cache, "%s_cm%d_dm%d" % (key, c[0], c[1])) if cache else None
            if cdir and os.path.isdir(cdir):
                for f in sorted(os.listdir(cdir)):
                    os.link(os.path.join(cdir, f), os.path.join(outdir, f))
                    res.setdefault(c, []).append(os.path.join(outdir, f))
            else:
                todo.append(c)
        tasks = [(u, c) for c in todo for u in units]
        with ThreadPoolExecutor(max_workers=jobs) as ex:
            outs = list(ex.map(lambda t: _extract_one(t[0], t[1], outdir), tasks))
        for (u, c), o in zip(tasks, outs):
            res.setdefault(c, []).append(o)
        if cache:
            for c in todo:
                cdir = os.path.join(cache, "%s_cm%d_dm%d" % (key, c[0], c[1]))
                tmp = tempfile.mkdtemp(prefix="tmp.", dir=cache)
                for o in res[c]:
                    shutil.copy(o, os.path.join(tmp, os.path.basename(o)))
                try:
                    os.rename(tmp, cdir)
                except OSError:
                    shutil.rmtree(tmp, ignore_errors=True)
        stats = {"units": len(units), "configs": [list(c) for c in configs], "extract_wall_s": round(time.time() - t0, 2)}
        if latent_openmp:
            # units whose library is built WITHOUT -fopenmp although their own source carries '#pragma omp' lines: the product
            # build ignores those pragmas; a second parse with -fopenmp tells what they state (decided as "latent" by the rules)
            lat = []
            for u in units:
                if "-fopenmp" in u["flags"]:
                    continue
                try:
                    txt = open(u["file"]).read()
                except OSError:
                    continue
                if "#pragma omp" in txt:
                    lat.append(u)
            stats["latent_openmp_units"] = [os.path.relpath(u["file"], REPO) for u in lat]
            latdir = os.path.join(scratch, "ast_latent")
            os.makedirs(latdir)
            latres = {}
            for c in configs:
                repl = {}
                for u in lat:
                    v = dict(u, flags=list(u["flags"]) + ["-fopenmp"])
                    out = _extract_one(v, c, latdir)
                    repl[os.path.basename(out)] = out
                latres[c] = [repl.get(os.path.basename(o), o) for o in res[c]] if lat else None
            stats["_latent_paths"] = latres
        return scratch, res, stats
    except BaseException:
        shutil.rmtree(scratch, ignore_errors=True)
        raise


def extract_variant(rel_file, cfg, extra_flags):
    """One translation unit re-extracted with additional flags (e.g. -fopenmp for a unit whose library is built without it:
    its '#pragma omp' lines are then ignored by the product build but still state what a build with OpenMP would execute).
    Returns (scratch_dir, json_path, had_flags). Caller removes scratch_dir."""
    scratch = tempfile.mkdtemp(prefix="sc3dlint.var.")
    try:
        units = _LAST_UNITS or compile_db(scratch)      # the flags were read from the compile database earlier in this run
        u = [x for x in units if os.path.relpath(x["file"], REPO) == rel_file]
        if len(u) != 1:
            raise AnalysisBroken("translation unit %s not in the compile database" % rel_file)
        had = [f for f in extra_flags if f in u[0]["flags"]]
        v = dict(u[0], flags=list(u[0]["flags"]) + [f for f in extra_flags if f not in u[0]["flags"]])
        if not os.path.isdir(v["dir"]):
            v["dir"] = scratch        # the configure directory of the main extraction is gone; cmake's include paths are absolute
        outdir = os.path.join(scratch, "ast")
        os.makedirs(outdir)
        return scratch, _extract_one(v, cfg, outdir), had
    except BaseException:
        shutil.rmtree(scratch, ignore_errors=True)
        raise
