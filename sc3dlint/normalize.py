"""Semantics-preserving normalisation of the serialised AST, applied once at load time so that every rule sees the same
program whether or not a maintainer has extracted a repeated block into a *local lambda*:

  * a statement-level call `lam(a, b);` of a local, non-generic lambda whose body has no `return` is replaced by a block
    `{ P1 p1 = a; P2 p2 = b; <body> }` (the parameters become ordinary locals: a reference parameter becomes a reference
    variable bound to the argument, a value parameter a copy - exactly C++'s own parameter passing);
  * a call `lam(a, b)` in expression position of a lambda whose body is a single `return expr;` is replaced by `(expr)` with the
    parameters substituted by the arguments, provided that is safe (each argument is evaluated at most once, or has no effects);
  * a lambda variable whose every use was inlined is removed.

Lambdas that capture a non-const variable by copy, generic lambdas, lambdas with early returns and lambdas handed to algorithms
(std::for_each(..., lam)) are left alone: the rules treat those through their own wrapper summaries.  Declarations inside an
inlined body get fresh ids per call site so that two inlined copies in one function never share a local."""
import copy
import re

from .model import walk, strip, children, _SUBKEYS

_FRESH = 50_000_000


def _is_lambda_call(n, lambdas):
    if n.get("k") == "CXXOperatorCallExpr" and n.get("op") == "()" and len(n.get("c", [])) >= 2:
        o = strip(n["c"][1])
        if o.get("k") == "DeclRefExpr" and isinstance(o.get("ref"), dict) and o["ref"].get("did") in lambdas:
            return o["ref"]["did"]
    return None


def _effect_free(e):
    for x in walk(e):
        k = x.get("k")
        if k in ("CompoundAssignOperator", "CXXThrowExpr", "LambdaExpr", "CXXNewExpr", "CXXDeleteExpr"):
            return False
        if k == "BinaryOperator" and x.get("op") == "=":
            return False
        if k == "UnaryOperator" and x.get("op") in ("++", "--", "post++", "post--", "pre++", "pre--"):
            return False
        if k in ("CallExpr", "CXXOperatorCallExpr"):
            return False
        if k == "CXXMemberCallExpr" and not x.get("cconst"):
            return False
    return True


def _eligible(var, lam, fn):
    if not isinstance(lam.get("body"), dict) or lam.get("params") is None:
        return None
    if any("auto" in p.get("t", "") for p in lam["params"]):
        return None
    for c in lam.get("captures", []):
        if c.get("this") or c.get("byref"):
            continue
        if not c.get("t", "").startswith("const "):
            return None
    rets = [r for r in walk(lam["body"], into_lambdas=False) if r.get("k") == "ReturnStmt"]
    stmts = lam["body"].get("c", [])
    if not rets:
        return "block"
    if all(not isinstance(r.get("value"), dict) for r in rets):
        # a void body whose `return;` statements sit in tail positions only: `if(c){...; return;} rest` is `if(c){...} else {rest}`
        conv = _returns_to_assignments(stmts, None, void=True)
        if conv is not None:
            lam["body"] = dict(lam["body"], c=conv, void_returns_folded=True)
            return "block"
        return None
    if len(stmts) == 1 and stmts[0].get("k") == "ReturnStmt" and isinstance(stmts[0].get("value"), dict) and len(rets) == 1:
        return "expr"
    if len(rets) == 1 and stmts and stmts[-1] is rets[0] and isinstance(rets[0].get("value"), dict):
        # [const T v = e;]* return E;  with effect-free initialisers is the expression E[v := e]
        decls, pure = {}, True
        for st in stmts[:-1]:
            if st.get("k") != "DeclStmt":
                pure = False
                break
            for d in st.get("decls", []):
                if d.get("k") != "Var" or not isinstance(d.get("init"), dict) or not _effect_free_calls_ok(d["init"]) or not (d.get("t", "").startswith("const ") or d.get("t", "").endswith("const")):
                    pure = False
                    break
                decls[d["did"]] = d["init"]
        if pure and decls and _effect_free_calls_ok(rets[0]["value"]):
            v = copy.deepcopy(rets[0]["value"])
            for _ in range(len(decls) + 1):
                v = _subst(v, decls)
            lam["body"] = {"k": "CompoundStmt", "l": lam["body"].get("l"), "c": [{"k": "ReturnStmt", "l": rets[0].get("l"), "value": v}]}
            return "expr"
        return "tail"        # statements followed by one final 'return expr;': inlined where the result is assigned (x = f(...);)
    sel = _as_select(lam)
    if sel is not None:
        # const locals; if(c) return A; return B;   ==   return c ? A : B;   (rewritten in place, then inlined as an expression)
        lam["body"] = {"k": "CompoundStmt", "l": lam["body"].get("l"), "c": [sel]}
        return "expr"
    if _multi_ok(lam):
        return "multi"       # early returns in tail positions only: inlined where the result initialises a declaration / is assigned
    return None


def _as_select(lam):
    """body of the form  [const T v = e;]*  if(c) return A; [else] return B;   ->   the statement 'return c ? A : B;' with the
    locals substituted by their initialisers (they are single-assignment and their initialisers are effect free)"""
    stmts = lam["body"].get("c", [])
    if len(stmts) < 2:
        return None
    decls = {}
    i = 0
    while i < len(stmts) and stmts[i].get("k") == "DeclStmt":
        for d in stmts[i].get("decls", []):
            if d.get("k") != "Var" or not isinstance(d.get("init"), dict) or not _effect_free_calls_ok(d["init"]):
                return None
            decls[d["did"]] = d["init"]
        i += 1
    rest = stmts[i:]
    def only_return(b):
        b = b.get("c", [b]) if b.get("k") == "CompoundStmt" else [b]
        return b[0] if len(b) == 1 and b[0].get("k") == "ReturnStmt" and isinstance(b[0].get("value"), dict) else None
    if not rest or rest[0].get("k") != "IfStmt":
        return None
    iff = rest[0]
    a = only_return(iff["then"])
    b = None
    if isinstance(iff.get("else"), dict) and len(rest) == 1:
        b = only_return(iff["else"])
    elif iff.get("else") is None and len(rest) == 2:
        b = only_return(rest[1])
    if a is None or b is None:
        return None
    # any local written after its declaration disqualifies the rewriting
    for x in walk(lam["body"]):
        if x.get("k") in ("CompoundAssignOperator",) or (x.get("k") == "BinaryOperator" and x.get("op") == "=") or (x.get("k") == "UnaryOperator" and x.get("op") in ("++", "--", "post++", "post--", "pre++", "pre--")):
            return None
    cond = {"k": "ConditionalOperator", "l": iff.get("l"), "t": a["value"].get("t"), "c": [copy.deepcopy(iff["cond"]), copy.deepcopy(a["value"]), copy.deepcopy(b["value"])]}
    for _ in range(len(decls) + 1):
        cond = _subst(cond, decls)
    return {"k": "ReturnStmt", "l": iff.get("l"), "value": cond}


def _effect_free_calls_ok(e):
    """effect free, allowing calls of const members / std math (a local such as floor((p - m) / s))"""
    for x in walk(e):
        k = x.get("k")
        if k in ("CompoundAssignOperator", "CXXThrowExpr", "LambdaExpr", "CXXNewExpr", "CXXDeleteExpr"):
            return False
        if k == "BinaryOperator" and x.get("op") == "=":
            return False
        if k == "UnaryOperator" and x.get("op") in ("++", "--", "post++", "post--", "pre++", "pre--"):
            return False
        if k == "CallExpr" and not (x.get("callee", "").startswith("std::") or x.get("callee", "") in ("floor", "ceil", "abs", "fabs", "sqrt")):
            return False
        if k == "CXXMemberCallExpr" and not x.get("cconst"):
            return False
    return True


def _remap(node, mapping):
    """deep copy with declaration ids remapped (declarations and references)"""
    n = copy.deepcopy(node)
    for x in walk(n):
        if x.get("k") in ("Var", "Decomposition", "ParmVar", "Binding") and x.get("did") in mapping:
            x["did"] = mapping[x["did"]]
        r = x.get("ref")
        if isinstance(r, dict) and r.get("did") in mapping:
            r["did"] = mapping[r["did"]]
        if x.get("k") == "LambdaExpr":
            for c in x.get("captures", []):
                if c.get("did") in mapping:
                    c["did"] = mapping[c["did"]]
            for p_ in x.get("params", []) or []:
                if isinstance(p_, dict) and p_.get("did") in mapping:
                    p_["did"] = mapping[p_["did"]]
        if isinstance(x.get("decls"), list):
            for d in x["decls"]:
                if isinstance(d, dict) and d.get("did") in mapping:
                    d["did"] = mapping[d["did"]]
                for b in d.get("bindings", []) if isinstance(d, dict) else []:
                    if isinstance(b, dict) and b.get("did") in mapping:
                        b["did"] = mapping[b["did"]]
    return n


def _declared(body):
    out = set()
    for x in walk(body):
        if x.get("k") in ("Var", "Decomposition", "Binding") and x.get("did") is not None:
            out.add(x["did"])
        if isinstance(x.get("decls"), list):
            for d in x["decls"]:
                if isinstance(d, dict):
                    if d.get("did") is not None:
                        out.add(d["did"])
                    for b in d.get("bindings", []):
                        if isinstance(b, dict) and b.get("did") is not None:
                            out.add(b["did"])
        if x.get("k") == "CXXForRangeStmt" and isinstance(x.get("var"), dict) and x["var"].get("did") is not None:
            out.add(x["var"]["did"])
        if x.get("k") == "LambdaExpr":
            for p in x.get("params", []):
                if p.get("did") is not None:
                    out.add(p["did"])
    return out


def _subst(n, sub):
    if n.get("k") == "DeclRefExpr" and isinstance(n.get("ref"), dict) and n["ref"].get("did") in sub:
        a = copy.deepcopy(sub[n["ref"]["did"]])
        if strip(a).get("k") in ("DeclRefExpr", "MemberExpr", "IntegerLiteral", "FloatingLiteral", "CXXBoolLiteralExpr", "StringLiteral", "CXXThisExpr"):
            return a
        return {"k": "ParenExpr", "l": n.get("l"), "t": n.get("t"), "c": [a]}
    for key in _SUBKEYS + ("var",):
        if isinstance(n.get(key), dict):
            n[key] = _subst(n[key], sub)
    if isinstance(n.get("c"), list):
        n["c"] = [_subst(x, sub) if isinstance(x, dict) else x for x in n["c"]]
    if isinstance(n.get("decls"), list):
        n["decls"] = [_subst(x, sub) if isinstance(x, dict) else x for x in n["decls"]]
    if isinstance(n.get("handlers"), list):
        n["handlers"] = [_subst(x, sub) if isinstance(x, dict) else x for x in n["handlers"]]
    return n


def _stable_lvalue(a):
    """an expression that designates the same object wherever it is evaluated inside the inlined body: a variable, a field of
    this, or a field chain of those"""
    a = strip(a)
    while a.get("k") == "MemberExpr" and a.get("c"):
        a = strip(a["c"][0])
    return a.get("k") in ("DeclRefExpr", "CXXThisExpr") or (a.get("k") == "MemberExpr" and not a.get("c"))



# ---- functions / lambdas with early returns, results bound to a declaration (possibly a structured binding) ----------
_WRAP = ("ExprWithCleanups", "MaterializeTemporaryExpr", "CXXBindTemporaryExpr", "ImplicitCastExpr", "CXXFunctionalCastExpr", "ParenExpr")


def _tuple_elems(value, n):
    """the n element expressions of a returned pair / tuple / array value, or None"""
    v = value
    for _ in range(8):
        if v.get("k") in _WRAP and len([c for c in v.get("c", []) if isinstance(c, dict)]) == 1:
            v = [c for c in v["c"] if isinstance(c, dict)][0]
            continue
        if v.get("k") in ("CXXConstructExpr", "CXXTemporaryObjectExpr") and len([c for c in v.get("c", []) if isinstance(c, dict)]) == 1 and n != 1:
            v = [c for c in v["c"] if isinstance(c, dict)][0]      # copy / move of the aggregate
            continue
        break
    k = v.get("k")
    if k == "CallExpr" and v.get("callee") in ("std::make_pair", "std::make_tuple"):
        el = [c for c in v.get("c", [])[1:] if isinstance(c, dict)]
        return el if len(el) == n else None
    if k == "InitListExpr":
        el = [c for c in v.get("c", []) if isinstance(c, dict)]
        if len(el) == 1 and el[0].get("k") == "InitListExpr" and n != 1:
            el = [c for c in el[0].get("c", []) if isinstance(c, dict)]
        return el if len(el) == n else None
    if k in ("CXXConstructExpr", "CXXTemporaryObjectExpr") and re.match(r"^(const )?std::(pair|tuple|array)<", v.get("t", "") or ""):
        el = [c for c in v.get("c", []) if isinstance(c, dict)]
        return el if len(el) == n else None
    return None


def _always_returns(b):
    st = b.get("c", []) if b.get("k") == "CompoundStmt" else [b]
    if not st:
        return False
    last = st[-1]
    if last.get("k") == "ReturnStmt":
        return True
    if last.get("k") == "IfStmt" and isinstance(last.get("else"), dict):
        return _always_returns(last["then"]) and _always_returns(last["else"])
    if last.get("k") == "CompoundStmt":
        return _always_returns(last)
    return False


def _returns_to_assignments(stmts, setter, void=False):
    """statement list in which `return E;` occurs only in tail position of the list or of if-branches: the same list with every
    `return E;` replaced by setter(E) and the statements that follow an `if(c){...return}` moved into its else branch.  None if a
    return sits anywhere else (inside a loop, a switch, a try, a partially returning if)."""
    out = []
    for i, s_ in enumerate(stmts):
        k = s_.get("k")
        if k == "ReturnStmt":
            if not isinstance(s_.get("value"), dict):
                return out if void else None
            if void:
                return None
            a = setter(s_["value"], s_.get("l"))
            return None if a is None else out + a
        has_ret = any(x.get("k") == "ReturnStmt" for x in walk(s_, into_lambdas=False))
        if not has_ret:
            out.append(s_)
            continue
        if k == "CompoundStmt":
            inner = _returns_to_assignments(s_.get("c", []), setter, void)
            if inner is None or not _always_returns(s_):
                return None
            return out + [dict(s_, c=inner)]
        if k != "IfStmt" or "condvar" in s_ or isinstance(s_.get("init"), dict):
            return None
        then_b = s_["then"].get("c", []) if s_["then"].get("k") == "CompoundStmt" else [s_["then"]]
        if isinstance(s_.get("else"), dict):
            else_b = s_["else"].get("c", []) if s_["else"].get("k") == "CompoundStmt" else [s_["else"]]
            tr, er = _always_returns(s_["then"]), _always_returns(s_["else"])
            if tr and er:
                t2, e2 = _returns_to_assignments(then_b, setter, void), _returns_to_assignments(else_b, setter, void)
                if t2 is None or e2 is None:
                    return None
                return out + [dict(s_, then={"k": "CompoundStmt", "l": s_.get("l"), "c": t2}, **{"else": {"k": "CompoundStmt", "l": s_.get("l"), "c": e2}})]
            return None
        if not _always_returns(s_["then"]):
            return None
        t2 = _returns_to_assignments(then_b, setter, void)
        e2 = _returns_to_assignments(stmts[i + 1:], setter, void)
        if t2 is None or e2 is None:
            return None
        return out + [dict(s_, then={"k": "CompoundStmt", "l": s_.get("l"), "c": t2}, **{"else": {"k": "CompoundStmt", "l": s_.get("l"), "c": e2}})]
    return out if void else None      # falls off the end: fine for a void body, no value otherwise


def _multi_ok(lam):
    return _returns_to_assignments(lam["body"].get("c", []), lambda v, l: []) is not None


class _Inliner:
    def __init__(self, fn):
        self.fn = fn
        self.site = 0
        self.count = 0

    def fresh(self, dids):
        self.site += 1
        return {d: _FRESH * self.site + (d if isinstance(d, int) else hash(d) % _FRESH) for d in dids}

    def block_for(self, call, lam):
        args = call["c"][2:]
        params = lam["params"]
        if len(args) != len(params):
            return None
        mapping = self.fresh({p["did"] for p in params} | _declared(lam["body"]))
        decls = []
        sub = {}
        written = set()
        for x in walk(lam["body"]):
            k_ = x.get("k")
            t_ = None
            if (k_ == "BinaryOperator" and x.get("op") == "=") or k_ == "CompoundAssignOperator":
                t_ = strip(x["c"][0])
            elif k_ == "UnaryOperator" and x.get("op") in ("++", "--", "post++", "post--", "pre++", "pre--", "&") and x.get("c"):
                t_ = strip(x["c"][0])
            elif k_ == "CXXOperatorCallExpr" and x.get("op") in ("=", "+=", "-=", "++", "--") and len(x.get("c", [])) >= 2:
                t_ = strip(x["c"][1])
            elif k_ == "CXXMemberCallExpr" and not x.get("cconst") and isinstance(x.get("c"), list) and x["c"]:
                me_ = strip(x["c"][0])
                if me_.get("k") == "MemberExpr" and me_.get("c") and not me_.get("arrow"):
                    t_ = strip(me_["c"][0])
            if t_ is not None and t_.get("k") == "DeclRefExpr" and (t_.get("ref") or {}).get("did") is not None:
                written.add(t_["ref"]["did"])
        for p, a in zip(params, args):
            if p.get("t", "").rstrip().endswith("&") and not p.get("t", "").rstrip().endswith("&&") and _stable_lvalue(a):
                # a reference parameter bound to a variable / field: the parameter IS that object
                sub[mapping[p["did"]]] = a
                continue
            a0 = strip(a)
            while a0.get("k") in ("CXXConstructExpr", "ImplicitCastExpr", "MaterializeTemporaryExpr", "CXXBindTemporaryExpr") and len([c_ for c_ in a0.get("c", []) if isinstance(c_, dict)]) == 1:
                a0 = strip([c_ for c_ in a0["c"] if isinstance(c_, dict)][0])
            if a0.get("k") == "DeclRefExpr" and (a0.get("ref") or {}).get("dk") in ("Var", "ParmVar") and p["did"] not in written and a0["ref"].get("did") not in written \
                    and not p.get("t", "").rstrip().endswith("&&") and re.sub(r"^const\s+", "", (p.get("t") or "")).strip() == re.sub(r"^const\s+", "", (a0.get("t") or "")).strip():
                # a by-value parameter that is never modified, given a variable that the body never modifies either: the copy is
                # only another name for the caller's variable (pointer / shared_ptr / scalar alike)
                sub[mapping[p["did"]]] = a0
                continue
            decls.append({"k": "DeclStmt", "l": call.get("l"), "decls": [
                {"k": "Var", "name": p["name"], "did": mapping[p["did"]], "t": p["t"], "l": call.get("l"), "init": copy.deepcopy(a), "inlined_param": True}]})
        body = _remap(lam["body"], mapping)
        if sub:
            body = _subst(body, sub)
        # the parameters are ordinary locals now
        pl = {mapping[p["did"]] for p in params}
        for x in walk(body):
            r = x.get("ref")
            if isinstance(r, dict) and r.get("did") in pl and r.get("dk") == "ParmVar":
                r["dk"] = "Var"
        self.count += 1
        return {"k": "CompoundStmt", "l": call.get("l"), "inlined_lambda": True, "c": decls + body.get("c", [])}

    def tail_for(self, assign, call, lam):
        """`x = lam(args);`  ->  { P p = arg...; <body without its final return>; x = <returned expression>; }"""
        blk = self.block_for(call, {"params": lam["params"], "body": lam["body"], "captures": lam.get("captures", [])})
        if blk is None:
            return None
        last = blk["c"][-1]
        if last.get("k") != "ReturnStmt":
            return None
        a = copy.deepcopy(assign)
        core = strip(a)
        # replace the call (right-hand side) by the returned expression
        if core.get("k") == "BinaryOperator":
            core["c"][1] = last["value"]
        else:
            core["c"][2] = last["value"]
        blk["c"][-1] = a
        return blk

    def tail_for_decl(self, declstmt, var, call, lam):
        """`T v = f(args);`  ->  the statements  { P p = arg...; <body without its final return>; T v = <returned expression>; }
        spliced into the enclosing sequence (declaration ids of the copied body are fresh, so nothing can clash)."""
        blk = self.block_for(call, {"params": lam["params"], "body": lam["body"], "captures": lam.get("captures", [])})
        if blk is None or not blk["c"] or blk["c"][-1].get("k") != "ReturnStmt":
            return None
        d = copy.deepcopy(declstmt)
        for v in d.get("decls", []):
            if v.get("did") == var.get("did"):
                v["init"] = blk["c"][-1]["value"]
        blk["c"][-1] = d
        blk["splice"] = True
        return blk

    def multi_for(self, stmt, call, lam):
        """`T v = f(args);`, `auto [a, b] = f(args);` or `x = f(args);` with f's returns in tail positions:
        ->  T v; / A a; B b;   { P p = arg...; <body with `return E;` replaced by `v = E;` resp. `a = E1; b = E2;`> }
        (spliced into the enclosing sequence; early returns become if/else)."""
        blk = self.block_for(call, {"params": lam["params"], "body": lam["body"], "captures": lam.get("captures", [])})
        if blk is None:
            return None
        nbody = len(lam["body"].get("c", []))
        pre, body = blk["c"][:len(blk["c"]) - nbody], blk["c"][len(blk["c"]) - nbody:]
        decls_out = []
        if stmt.get("k") == "DeclStmt":
            d = stmt["decls"][0]
            if d.get("k") == "Var":
                nv = {k_: v_ for k_, v_ in d.items() if k_ != "init"}
                nv["t"] = re.sub(r"^const\s+", "", nv.get("t", "") or "")
                decls_out = [nv]
                targets = [nv]
            elif d.get("k") == "Decomposition":
                targets = []
                for b in d.get("bindings", []):
                    nv = {"k": "Var", "did": b.get("did"), "name": b.get("name"), "t": re.sub(r"^const\s+", "", b.get("t", "") or ""), "l": d.get("l"), "from_binding": True}
                    targets.append(nv)
                decls_out = list(targets)
            else:
                return None

            def ref(v, l):
                return {"k": "DeclRefExpr", "t": v.get("t"), "vc": "l", "l": l, "ref": {"did": v["did"], "dk": "Var", "name": v.get("name")}}
        else:
            core = strip(stmt)
            lhs = core["c"][0] if core.get("k") == "BinaryOperator" else core["c"][1]
            targets = [None]

            def ref(v, l):
                return copy.deepcopy(lhs)

        def setter(value, l):
            if len(targets) == 1:
                els = [value]
            else:
                els = _tuple_elems(value, len(targets))
                if els is None:
                    return None
            return [{"k": "BinaryOperator", "op": "=", "t": (t_ or {}).get("t") if isinstance(t_, dict) else None, "l": l, "c": [ref(t_, l), e_]} for t_, e_ in zip(targets, els)]
        conv = _returns_to_assignments(body, setter)
        if conv is None:
            self.count -= 1
            return None
        out = []
        if decls_out:
            out.append({"k": "DeclStmt", "l": stmt.get("l"), "decls": decls_out, "result_of_inlined_call": True})
        out.append({"k": "CompoundStmt", "l": call.get("l"), "inlined_lambda": True, "c": pre + conv})
        return {"k": "CompoundStmt", "l": call.get("l"), "inlined_lambda": True, "splice": True, "c": out}

    def expr_for(self, call, lam):
        args = call["c"][2:]
        params = lam["params"]
        if len(args) != len(params):
            return None
        value = lam["body"]["c"][0]["value"]
        uses = {p["did"]: 0 for p in params}
        for x in walk(value):
            if x.get("k") == "DeclRefExpr" and isinstance(x.get("ref"), dict) and x["ref"].get("did") in uses:
                uses[x["ref"]["did"]] += 1
        for p, a in zip(params, args):
            if uses[p["did"]] > 1 and not _effect_free(a):
                return None
            if uses[p["did"]] == 0 and not _effect_free(a):
                return None
        mapping = self.fresh(_declared(lam["body"]))
        v = _remap(value, mapping)
        sub = {p["did"]: a for p, a in zip(params, args)}

        self.count += 1
        return {"k": "ParenExpr", "l": call.get("l"), "t": call.get("t"), "inlined_lambda": True, "c": [_subst(v, sub)]}

    def run(self):
        body = self.fn.get("body")
        if not isinstance(body, dict):
            return 0
        for _round in range(3):
            lambdas = {}
            for n in walk(body):
                if n.get("k") == "Var" and isinstance(n.get("init"), dict) and n.get("did") is not None:
                    lam = strip(n["init"])
                    if lam.get("k") == "LambdaExpr":
                        kind = _eligible(n, lam, self.fn)
                        if kind:
                            lambdas[n["did"]] = (n, lam, kind)
            if not lambdas:
                break
            before = self.count
            body = self._hoist_whole_conditions(body, lambdas)
            self.fn["body"] = body

            def rewrite(n, stmt_pos):
                # children first (but never inside the lambda definitions themselves: they are copied when inlined)
                if n.get("k") == "Var" and n.get("did") in lambdas:
                    return n
                k = n.get("k")
                for key in _SUBKEYS + ("var",):
                    v = n.get(key)
                    if isinstance(v, dict):
                        n[key] = rewrite(v, key in ("then", "else", "body") and k in ("IfStmt", "ForStmt", "WhileStmt", "DoStmt", "CXXForRangeStmt"))
                if isinstance(n.get("c"), list):
                    out_c = []
                    for x in n["c"]:
                        r_ = rewrite(x, k == "CompoundStmt") if isinstance(x, dict) else x
                        if k == "CompoundStmt" and isinstance(r_, dict) and r_.get("splice"):
                            out_c.extend(r_["c"])
                        else:
                            out_c.append(r_)
                    n["c"] = out_c
                if isinstance(n.get("decls"), list):
                    n["decls"] = [rewrite(x, False) if isinstance(x, dict) else x for x in n["decls"]]
                if isinstance(n.get("handlers"), list):
                    n["handlers"] = [rewrite(x, False) if isinstance(x, dict) else x for x in n["handlers"]]
                core = strip(n)
                if stmt_pos and n.get("k") == "DeclStmt" and len(n.get("decls", [])) == 1 and n["decls"][0].get("k") in ("Var", "Decomposition") and isinstance(n["decls"][0].get("init"), dict):
                    rhs = strip(n["decls"][0]["init"])
                    while rhs.get("k") in ("CXXConstructExpr", "MaterializeTemporaryExpr", "CXXBindTemporaryExpr", "ExprWithCleanups") and len(rhs.get("c", [])) == 1:
                        rhs = strip(rhs["c"][0])
                    d2 = _is_lambda_call(rhs, lambdas)
                    if d2 is not None and lambdas[d2][2] == "tail" and n["decls"][0].get("k") == "Var":
                        r = self.tail_for_decl(n, n["decls"][0], rhs, lambdas[d2][1])
                        if r is not None:
                            return r
                    elif d2 is not None and lambdas[d2][2] in ("tail", "multi"):
                        r = self.multi_for(n, rhs, lambdas[d2][1])
                        if r is not None:
                            self.bindings_to_vars = True
                            return r
                if stmt_pos and core.get("k") in ("BinaryOperator", "CXXOperatorCallExpr") and core.get("op") == "=":
                    rhs = strip(core["c"][1] if core["k"] == "BinaryOperator" else core["c"][2]) if len(core.get("c", [])) >= 2 else {}
                    while rhs.get("k") in ("CXXConstructExpr", "MaterializeTemporaryExpr", "CXXBindTemporaryExpr", "ExprWithCleanups") and len(rhs.get("c", [])) == 1:
                        rhs = strip(rhs["c"][0])
                    d2 = _is_lambda_call(rhs, lambdas)
                    if d2 is not None and lambdas[d2][2] == "tail":
                        r = self.tail_for(n, rhs, lambdas[d2][1])
                        if r is not None:
                            return r
                    elif d2 is not None and lambdas[d2][2] == "multi" and core.get("k") == "BinaryOperator":
                        r = self.multi_for(n, rhs, lambdas[d2][1])
                        if r is not None:
                            return r
                did = _is_lambda_call(core, lambdas)
                if did is None:
                    return n
                var, lam, kind = lambdas[did]
                if kind == "block" and stmt_pos:
                    r = self.block_for(core, lam)
                    return r if r is not None else n
                if kind == "expr":
                    r = self.expr_for(core, lam)
                    if r is not None:
                        if core is n:
                            return r
                        # keep the transparent wrappers around the call
                        p = n
                        while strip(p) is core and p is not core:
                            nxt = p["c"][0]
                            if nxt is core:
                                p["c"][0] = r
                                break
                            p = nxt
                        return n
                return n
            body = rewrite(body, False)
            self.fn["body"] = body
            _bindings_to_vars(body)
            # drop lambda variables that are no longer referenced
            for did, (var, lam, kind) in lambdas.items():
                used = any(x.get("k") == "DeclRefExpr" and isinstance(x.get("ref"), dict) and x["ref"].get("did") == did for x in walk(body))
                captured = any(x.get("k") == "LambdaExpr" and any(c.get("did") == did for c in x.get("captures", [])) for x in walk(body))
                if not used and not captured:
                    self._remove_var(body, did)
            if self.count == before:
                break
        return self.count

    def _hoist_whole_conditions(self, body, lambdas):
        """`if(lam(args)) ...` / `switch(lam(args)) ...` directly inside a block, lam a local lambda whose returns sit in tail
        positions: `const T __c = lam(args); if(__c) ... / switch(__c) ...` (same evaluation order)."""
        def rec(n):
            if n.get("k") == "Var" and n.get("did") in lambdas:
                return n
            for key in _SUBKEYS + ("var",):
                if isinstance(n.get(key), dict):
                    n[key] = rec(n[key])
            for key in ("decls", "handlers"):
                if isinstance(n.get(key), list):
                    n[key] = [rec(x) if isinstance(x, dict) else x for x in n[key]]
            if isinstance(n.get("c"), list):
                out = []
                for x in n["c"]:
                    x = rec(x) if isinstance(x, dict) else x
                    if n.get("k") == "CompoundStmt" and isinstance(x, dict) and x.get("k") in ("IfStmt", "SwitchStmt") and isinstance(x.get("cond"), dict) and "condvar" not in x and not isinstance(x.get("init"), dict):
                        c0 = strip(x["cond"])
                        while c0.get("k") in ("ExprWithCleanups", "ParenExpr", "ImplicitCastExpr") and len([c_ for c_ in c0.get("c", []) if isinstance(c_, dict)]) == 1:
                            c0 = strip([c_ for c_ in c0["c"] if isinstance(c_, dict)][0])
                        d2 = _is_lambda_call(c0, lambdas)
                        if d2 is not None and lambdas[d2][2] in ("tail", "multi"):
                            self.site += 1
                            did = _FRESH * 19 + self.site * 1000 + (abs(hash(self.fn.get("key", ""))) % 997)
                            name = "__cond_%d" % self.site
                            t = c0.get("t") or "auto"
                            var = {"k": "Var", "did": did, "name": name, "t": t if t.startswith("const ") else "const " + t, "init": c0, "l": x.get("l")}
                            x["cond"] = {"k": "DeclRefExpr", "l": c0.get("l"), "t": t, "vc": "l", "ref": {"did": did, "dk": "Var", "name": name}}
                            out.append({"k": "DeclStmt", "l": x.get("l"), "decls": [var], "hoisted_from_condition": True})
                    out.append(x)
                n["c"] = out
            return n
        return rec(body)

    def _remove_var(self, body, did):
        for n in walk(body):
            if n.get("k") == "CompoundStmt" and isinstance(n.get("c"), list):
                keep = []
                for s in n["c"]:
                    if s.get("k") == "DeclStmt" and isinstance(s.get("decls"), list) and any(isinstance(d, dict) and d.get("did") == did for d in s["decls"]):
                        s["decls"] = [d for d in s["decls"] if not (isinstance(d, dict) and d.get("did") == did)]
                        if not s["decls"]:
                            continue
                    keep.append(s)
                n["c"] = keep


def _bindings_to_vars(body):
    """references to structured bindings that were turned into ordinary variables by multi_for"""
    dids = {v["did"] for v in walk(body) if v.get("k") == "Var" and v.get("from_binding")}
    if not dids:
        return
    for x in walk(body):
        r = x.get("ref")
        if isinstance(r, dict) and r.get("did") in dids and r.get("dk") == "Binding":
            r["dk"] = "Var"


def inline_local_lambdas(fn):
    return _Inliner(fn).run()


# ---- helper functions that did not exist at the reference commit ---------------------------------------------------
def load_inventory(path):
    try:
        return {l.strip() for l in open(path) if l.strip() and not l.startswith("#")}
    except OSError:
        return None


def _all_dids(body):
    out = set()
    for x in walk(body):
        if x.get("did") is not None:
            out.add(x["did"])
        r = x.get("ref")
        if isinstance(r, dict) and r.get("did") is not None and r.get("dk") in ("Var", "ParmVar", "Binding", "Decomposition"):
            out.add(r["did"])
    return out


def inline_new_helpers(prog, inventory, repo_prefix):
    """Functions of the repository that are not in the inventory of the reference tree (i.e. were introduced by a later
    change, typically 'extract method') are inlined at their statement-level call sites (void, no return statement) or
    expression-level call sites (body = one return statement), when they are non-virtual, non-recursive and called either as
    free/static functions or on the caller's own object.  The rules then see the program as it was before the extraction."""
    if inventory is None:
        return 0
    new = {}
    for f in prog.functions.values():
        if f.get("pseudo") or not f.get("file", "").startswith(repo_prefix) or "/lib/" in f.get("file", ""):
            continue
        if f["qn"] in inventory or not isinstance(f.get("body"), dict) or f.get("virtual") or f.get("overrides"):
            continue
        nm = f.get("name", "")
        if nm.startswith("operator") or nm.startswith("~") or nm == f.get("cls") or f.get("inits"):
            continue
        if any(x.get("callee") == f["qn"] for x in walk(f["body"])):
            continue
        pseudo = {"params": f.get("params", []), "body": f["body"], "captures": []}
        kind = _eligible(None, pseudo, f)
        if kind:
            new[f["key"]] = (f, pseudo, kind)
        elif not any("auto" in p_.get("t", "") for p_ in f.get("params", [])):
            new[f["key"]] = (f, pseudo, "return-only")      # inlinable only where its value is returned at once: `return f(..);`
    if not new:
        return 0
    total = 0
    for _round in range(3):
        changed = 0
        for g in list(prog.functions.values()):
            if not isinstance(g.get("body"), dict) or g.get("pseudo"):
                continue
            inl = _Inliner(g)

            def site(core):
                if core.get("k") == "CallExpr" and core.get("ckey") in new:
                    return new[core["ckey"]], core.get("c", [])[1:]
                if core.get("k") == "CXXMemberCallExpr" and core.get("ckey") in new:
                    f, pseudo, kind = new[core["ckey"]]
                    me = strip(core["c"][0])
                    base = strip(me["c"][0]) if me.get("k") == "MemberExpr" and me.get("c") else None
                    # called on the caller's own object (the helper may live in a base class of the caller's class)
                    if f.get("static") or (base is not None and base.get("k") == "CXXThisExpr"):
                        return new[core["ckey"]], core.get("c", [])[1:]
                return None, None

            def rewrite(n, stmt_pos):
                k = n.get("k")
                for key in _SUBKEYS + ("var",):
                    v = n.get(key)
                    if isinstance(v, dict):
                        n[key] = rewrite(v, key in ("then", "else", "body") and k in ("IfStmt", "ForStmt", "WhileStmt", "DoStmt", "CXXForRangeStmt"))
                if isinstance(n.get("c"), list):
                    out_c = []
                    for x in n["c"]:
                        r_ = rewrite(x, k == "CompoundStmt") if isinstance(x, dict) else x
                        if k == "CompoundStmt" and isinstance(r_, dict) and r_.get("splice"):
                            out_c.extend(r_["c"])
                        else:
                            out_c.append(r_)
                    n["c"] = out_c
                if isinstance(n.get("decls"), list):
                    n["decls"] = [rewrite(x, False) if isinstance(x, dict) else x for x in n["decls"]]
                if isinstance(n.get("handlers"), list):
                    n["handlers"] = [rewrite(x, False) if isinstance(x, dict) else x for x in n["handlers"]]
                if n.get("k") == "ReturnStmt" and isinstance(n.get("value"), dict):
                    # `return helper(args);`: the helper's own return statements return from the caller with the same value
                    rv = strip(n["value"])
                    while rv.get("k") in ("ExprWithCleanups", "MaterializeTemporaryExpr", "CXXBindTemporaryExpr", "ImplicitCastExpr", "ParenExpr") or (rv.get("k") == "CXXConstructExpr" and len([c_ for c_ in rv.get("c", []) if isinstance(c_, dict)]) == 1):
                        ch_ = [c_ for c_ in rv.get("c", []) if isinstance(c_, dict)]
                        if len(ch_) != 1:
                            break
                        rv = strip(ch_[0])
                    hit3, args3 = site(rv)
                    if hit3 is not None and hit3[0] is not g and (hit3[0].get("ret") or "").replace("const ", "").strip() == (g.get("ret") or "").replace("const ", "").strip() and hit3[0].get("ret"):
                        f3, pseudo3, _k3 = hit3
                        fake3 = {"c": [None, None] + list(args3), "l": rv.get("l"), "t": rv.get("t")}
                        body3 = pseudo3
                        if f3.get("file") != g.get("file"):
                            inl.site += 1
                            mapping3 = {d: _FRESH * 7 * inl.site + (d if isinstance(d, int) else hash(d) % _FRESH) for d in _all_dids(f3["body"]) | {p["did"] for p in f3.get("params", [])}}
                            body3 = {"params": [dict(p, did=mapping3[p["did"]]) for p in f3.get("params", [])], "body": _remap(f3["body"], mapping3), "captures": []}
                        r3 = inl.block_for(fake3, body3)
                        if r3 is not None:
                            r3["inlined_helper"] = f3["qn"]
                            r3["return_position"] = True
                            return r3
                core = strip(n)
                # x = helper(args);   /   T v = helper(args);   with a helper made of statements and one final return
                tgt_call = None
                if stmt_pos and n.get("k") == "DeclStmt" and len(n.get("decls", [])) == 1 and n["decls"][0].get("k") in ("Var", "Decomposition") and isinstance(n["decls"][0].get("init"), dict):
                    tgt_call = strip(n["decls"][0]["init"])
                elif stmt_pos and core.get("k") in ("BinaryOperator", "CXXOperatorCallExpr") and core.get("op") == "=" and len(core.get("c", [])) >= 2:
                    tgt_call = strip(core["c"][1] if core["k"] == "BinaryOperator" else core["c"][2])
                if tgt_call is not None:
                    while tgt_call.get("k") in ("CXXConstructExpr", "MaterializeTemporaryExpr", "CXXBindTemporaryExpr", "ExprWithCleanups") and len(tgt_call.get("c", [])) == 1:
                        tgt_call = strip(tgt_call["c"][0])
                    hit2, args2 = site(tgt_call)
                    if hit2 is not None and hit2[2] in ("tail", "multi") and hit2[0] is not g:
                        f2, pseudo2, _k2 = hit2
                        fake2 = {"c": [None, None] + list(args2), "l": tgt_call.get("l"), "t": tgt_call.get("t")}
                        body2 = pseudo2
                        if f2.get("file") != g.get("file"):
                            inl.site += 1
                            mapping2 = {d: _FRESH * 7 * inl.site + (d if isinstance(d, int) else hash(d) % _FRESH) for d in _all_dids(f2["body"]) | {p["did"] for p in f2.get("params", [])}}
                            body2 = {"params": [dict(p, did=mapping2[p["did"]]) for p in f2.get("params", [])], "body": _remap(f2["body"], mapping2), "captures": []}
                        if _k2 == "tail" and n.get("k") == "DeclStmt" and n["decls"][0].get("k") == "Var":
                            r2 = inl.tail_for_decl(n, n["decls"][0], fake2, body2)
                        elif _k2 == "tail" and n.get("k") != "DeclStmt":
                            r2 = inl.tail_for(n, fake2, body2)
                        elif n.get("k") == "DeclStmt" or strip(n).get("k") == "BinaryOperator":
                            r2 = inl.multi_for(n, fake2, body2)
                        else:
                            r2 = None
                        if r2 is not None:
                            r2["inlined_helper"] = f2["qn"]
                            return r2
                hit, args = site(core)
                if hit is None or hit[2] == "return-only":
                    return n
                f, pseudo, kind = hit
                if f is g:
                    return n
                fake = {"c": [None, None] + list(args), "l": core.get("l"), "t": core.get("t")}
                body = pseudo
                if f.get("file") != g.get("file"):
                    # ids are per translation unit: give every id of the copied body a fresh value
                    inl.site += 1
                    mapping = {d: _FRESH * 7 * inl.site + (d if isinstance(d, int) else hash(d) % _FRESH) for d in _all_dids(f["body"]) | {p["did"] for p in f.get("params", [])}}
                    body = {"params": [dict(p, did=mapping[p["did"]]) for p in f.get("params", [])], "body": _remap(f["body"], mapping), "captures": []}
                if kind == "block" and stmt_pos:
                    r = inl.block_for(fake, body)
                    if r is not None:
                        r["inlined_helper"] = f["qn"]
                        return r
                if kind == "expr":
                    r = inl.expr_for(fake, body)
                    if r is not None:
                        r["inlined_helper"] = f["qn"]
                        if core is n:
                            return r
                        p = n
                        while p is not core:
                            nxt = p["c"][0]
                            if nxt is core:
                                p["c"][0] = r
                                break
                            p = nxt
                        return n
                return n
            g["body"] = _hoist_condition_calls(g["body"], site, g, inl)
            g["body"] = rewrite(g["body"], False)
            _bindings_to_vars(g["body"])
            changed += inl.count
        total += changed
        if not changed:
            break
    return total


# ---- constant tables -----------------------------------------------------------------------------------------------
def _peel(e):
    e = strip(e)
    while e.get("k") == "ParenExpr" and e.get("c"):
        e = strip(e["c"][0])
    return e


def _rewrite(n, f):
    """post-order rewrite of every sub-node (all child slots)"""
    for key in _SUBKEYS + ("var", "condvar"):
        if isinstance(n.get(key), dict):
            n[key] = _rewrite(n[key], f)
    for key in ("c", "decls", "handlers"):
        if isinstance(n.get(key), list):
            n[key] = [_rewrite(x, f) if isinstance(x, dict) else x for x in n[key]]
    return f(n)


def _own_jumps(body):
    """break / continue statements that belong to the loop whose body this is"""
    out = []

    def rec(n, in_loop, in_switch):
        k = n.get("k")
        if k == "LambdaExpr":
            return
        if k == "BreakStmt" and not in_loop and not in_switch:
            out.append(n)
        if k == "ContinueStmt" and not in_loop:
            out.append(n)
        from .model import children as _ch
        for c in _ch(n):
            rec(c, in_loop or k in ("ForStmt", "WhileStmt", "DoStmt", "CXXForRangeStmt"), in_switch or k == "SwitchStmt")
    rec(body, False, False)
    return out


def unroll_constant_tables(prog, repo_prefix):
    """A range-for over a *constant global table* (const / constexpr std::array or C array of aggregates, fully brace-initialised)
    whose body reads the loop variable only through its fields is replaced by one copy of the body per row, with `row.field`
    substituted by that row's initialiser and `obj.*(&C::f)` folded to `obj.f`.  The table is immutable and the rows are visited in
    order, so the unrolled sequence is the loop's own execution; rules written for straight-line code then decide table-driven code
    too.  Returns the number of loops unrolled."""
    done = 0
    by_did = {g.get("did"): g for g in prog.globals.values() if isinstance(g, dict)}
    for fn in list(prog.functions.values()):
        if fn.get("pseudo") or not isinstance(fn.get("body"), dict) or not fn.get("file", "").startswith(repo_prefix) or "/lib/" in fn.get("file", ""):
            continue
        if not any(x.get("k") == "CXXForRangeStmt" for x in walk(fn["body"])):
            continue
        counter = [max([d for d in _all_dids(fn["body"])] + [_FRESH]) + 1]

        def unroll(loop):
            nonlocal done
            if loop.get("k") != "CXXForRangeStmt":
                return loop
            rng = _peel(loop.get("range") or {})
            if rng.get("k") != "DeclRefExpr" or (rng.get("ref") or {}).get("dk") != "Var":
                return loop
            g = by_did.get(rng["ref"].get("did"))
            if g is None or g.get("name") != rng["ref"].get("name") or not isinstance(g.get("init"), dict):
                return loop
            gt = (g.get("t") or rng.get("t") or "")
            if not gt.startswith("const "):
                return loop
            var = loop.get("var") or {}
            vt = (var.get("t") or "").strip()
            if not (vt.startswith("const ") or not vt.endswith("&")):
                return loop
            row_t = re.sub(r"^const\s+", "", vt).rstrip("&").strip()
            row_t = re.sub(r"\s+const$", "", row_t)
            rec_ = prog.records.get(row_t)
            if rec_ is None or rec_.get("bases"):
                return loop
            fields = [f_["did"] for f_ in rec_.get("fields", [])]
            rows = []

            def collect(n, inside):
                if n.get("k") == "InitListExpr" and n.get("t", "").replace("const ", "") == row_t and not inside:
                    rows.append(n)
                    return
                for c in n.get("c", []) or []:
                    if isinstance(c, dict):
                        collect(c, inside)
            collect(g["init"], False)
            m = re.search(r"(?:,\s*(\d+)\s*>|\[(\d+)\])\s*$", gt)
            if not rows or m is None or int(m.group(1) or m.group(2)) != len(rows):
                return loop
            if any(len([c for c in r.get("c", []) if isinstance(c, dict)]) != len(fields) for r in rows):
                return loop
            body = loop["body"]
            vdid = var.get("did")
            # the loop variable is read through its fields only
            uses = [x for x in walk(body) if x.get("k") == "DeclRefExpr" and (x.get("ref") or {}).get("did") == vdid]
            member_uses = [x for x in walk(body) if x.get("k") == "MemberExpr" and x.get("c") and _peel(x["c"][0]).get("k") == "DeclRefExpr" and (_peel(x["c"][0]).get("ref") or {}).get("did") == vdid and (x.get("ref") or {}).get("did") in fields]
            if len(uses) != len(member_uses) or _own_jumps(body):
                return loop
            copies = []
            for r in rows:
                vals = [c for c in r["c"] if isinstance(c, dict)]
                mapping = {}
                for d in _declared(body):
                    mapping[d] = counter[0]
                    counter[0] += 1
                b = _remap(body, mapping)

                def sub(n):
                    if n.get("k") == "MemberExpr" and n.get("c") and _peel(n["c"][0]).get("k") == "DeclRefExpr" and (_peel(n["c"][0]).get("ref") or {}).get("did") == vdid and (n.get("ref") or {}).get("did") in fields:
                        v = copy.deepcopy(vals[fields.index(n["ref"]["did"])])
                        return {"k": "ParenExpr", "l": n.get("l"), "t": n.get("t"), "c": [v]}
                    if n.get("k") == "BinaryOperator" and n.get("op") in (".*", "->*") and len(n.get("c", [])) == 2:
                        rhs = _peel(n["c"][1])
                        if rhs.get("k") == "UnaryOperator" and rhs.get("op") == "&" and rhs.get("c"):
                            tgt = _peel(rhs["c"][0])
                            if tgt.get("k") == "DeclRefExpr" and (tgt.get("ref") or {}).get("dk") == "Field":
                                return {"k": "MemberExpr", "arrow": n["op"] == "->*", "l": n.get("l"), "t": n.get("t"), "vc": n.get("vc"), "ref": dict(tgt["ref"]), "c": [n["c"][0]]}
                    return n
                b = _rewrite(b, sub)
                if b.get("k") != "CompoundStmt":
                    b = {"k": "CompoundStmt", "l": loop.get("l"), "c": [b]}
                b["inlined_lambda"] = True
                b["table_row"] = g.get("name")
                copies.append(b)
            done += 1
            return {"k": "CompoundStmt", "l": loop.get("l"), "c": copies, "inlined_lambda": True, "unrolled_table": g.get("name")}

        fn["body"] = _rewrite(fn["body"], unroll)
        fn.pop("_stable_locals", None)
    return done


def _hoist_condition_calls(body, site, g, inl):
    """`if(<cond containing helper(args)>) ...` directly inside a block, where the call of a new statement-bodied helper is the
    first thing the condition evaluates (it is reached from the root of the condition through parentheses, casts, !, -, comparisons
    and arithmetic whose other operand has no effects, and the left operand of && / ||), becomes
    `const T __hoisted = helper(args); if(<cond with __hoisted>) ...` - the same evaluation order - so that the ordinary
    declaration-initialiser inlining applies."""
    def find(e):
        """(parent, index) of the hoistable call in condition e, or None"""
        cur, parent, idx = e, None, None
        while True:
            core = cur
            hit, _ = site(strip(core)) if strip(core).get("k") in ("CallExpr", "CXXMemberCallExpr") else (None, None)
            if hit is not None:
                return (parent, idx) if (hit[2] in ("tail", "multi") and hit[0] is not g) else None
            k = cur.get("k")
            ch = cur.get("c", [])
            if k in ("ParenExpr", "ImplicitCastExpr", "ExprWithCleanups", "MaterializeTemporaryExpr", "CXXBindTemporaryExpr") and len(ch) == 1:
                parent, idx, cur = cur, 0, ch[0]
                continue
            if k == "UnaryOperator" and cur.get("op") in ("!", "-", "+") and len(ch) == 1:
                parent, idx, cur = cur, 0, ch[0]
                continue
            if k == "BinaryOperator" and len(ch) == 2:
                if cur.get("op") in ("&&", "||"):
                    parent, idx, cur = cur, 0, ch[0]
                    continue
                if cur.get("op") in ("<", "<=", ">", ">=", "==", "!=", "+", "-", "*", "/"):
                    def has_call(x):
                        return any(site(y)[0] is not None for y in walk(x) if y.get("k") in ("CallExpr", "CXXMemberCallExpr"))
                    if has_call(ch[0]) and _effect_free_calls_ok(ch[1]):
                        parent, idx, cur = cur, 0, ch[0]
                        continue
                    if has_call(ch[1]) and _effect_free_calls_ok(ch[0]):
                        parent, idx, cur = cur, 1, ch[1]
                        continue
            return None

    def rec(n):
        for key in _SUBKEYS + ("var",):
            if isinstance(n.get(key), dict):
                n[key] = rec(n[key])
        for key in ("decls", "handlers"):
            if isinstance(n.get(key), list):
                n[key] = [rec(x) if isinstance(x, dict) else x for x in n[key]]
        if isinstance(n.get("c"), list):
            out = []
            for x in n["c"]:
                x = rec(x) if isinstance(x, dict) else x
                if n.get("k") == "CompoundStmt" and isinstance(x, dict) and x.get("k") == "IfStmt" and isinstance(x.get("cond"), dict) and "condvar" not in x and not isinstance(x.get("init"), dict):
                    loc = find(x["cond"])
                    if loc is not None:
                        parent, idx = loc
                        if parent is None:
                            parent, idx = {"c": [x["cond"]]}, 0      # the call is the whole condition
                            whole = True
                        else:
                            whole = False
                        call = parent["c"][idx]
                        inl.site += 1
                        did = _FRESH * 11 + inl.site
                        name = "__hoisted_%d" % inl.site
                        t = (call.get("t") or "auto")
                        var = {"k": "Var", "did": did, "name": name, "t": t if t.startswith("const ") else "const " + t, "init": call, "l": x.get("l")}
                        parent["c"][idx] = {"k": "DeclRefExpr", "l": call.get("l"), "t": t, "vc": "l", "ref": {"did": did, "dk": "Var", "name": name}}
                        if whole:
                            x["cond"] = parent["c"][0]
                        out.append({"k": "DeclStmt", "l": x.get("l"), "decls": [var], "hoisted_from_condition": True})
                out.append(x)
            n["c"] = out
        return n
    return rec(body)


# ---- small constant loops and small local arrays -------------------------------------------------------------------
def _int_lit(e):
    e = strip(e)
    while e.get("k") in ("ParenExpr", "ImplicitCastExpr", "CStyleCastExpr", "CXXStaticCastExpr", "CXXFunctionalCastExpr") and e.get("c"):
        e = strip(e["c"][0])
    if e.get("k") == "IntegerLiteral":
        try:
            return int(e["v"])
        except (ValueError, TypeError):
            return None
    return None


def _repo_fns(prog, repo_prefix):
    for fn in list(prog.functions.values()):
        if fn.get("pseudo") or not isinstance(fn.get("body"), dict) or not fn.get("file", "").startswith(repo_prefix) or "/lib/" in fn.get("file", ""):
            continue
        yield fn


MAX_TRIP = 4


def unroll_constant_loops(prog, repo_prefix):
    """`for(T i = K0; i < K1; i++) body` with literal bounds and at most MAX_TRIP iterations, whose body neither writes i nor
    jumps out of the loop, is replaced by the iterations written out with i replaced by its value (innermost-dependent bounds such
    as `col = row` become literal once the outer loop is unrolled: the pass is repeated).  Loops that belong to an OpenMP
    directive are left alone."""
    total = 0
    for fn in _repo_fns(prog, repo_prefix):
        if fn.get("qn", "").startswith("gte::"):
            continue
        if not any(x.get("k") == "ForStmt" for x in walk(fn["body"])):
            continue
        counter = [max(list(_all_dids(fn["body"])) + [_FRESH * 13]) + 1]
        omp_loops = {id(x["body"]) for x in walk(fn["body"]) if "omp" in x and isinstance(x.get("body"), dict)}
        for _round in range(4):
            changed = [0]

            def unroll(loop):
                if loop.get("k") != "ForStmt" or id(loop) in omp_loops:
                    return loop
                init, cond, inc, body = loop.get("init"), loop.get("cond"), loop.get("inc"), loop.get("body")
                if not (isinstance(init, dict) and isinstance(cond, dict) and isinstance(inc, dict) and isinstance(body, dict)):
                    return loop
                if init.get("k") != "DeclStmt" or len(init.get("decls", [])) != 1 or init["decls"][0].get("k") != "Var":
                    return loop
                iv = init["decls"][0]
                k0 = _int_lit(iv.get("init") or {})
                c = strip(cond)
                if k0 is None or c.get("k") != "BinaryOperator" or c.get("op") not in ("<", "<=", "!="):
                    return loop
                l = strip(c["c"][0])
                while l.get("k") in ("ImplicitCastExpr", "ParenExpr") and l.get("c"):
                    l = strip(l["c"][0])
                k1 = _int_lit(c["c"][1])
                if l.get("k") != "DeclRefExpr" or (l.get("ref") or {}).get("did") != iv.get("did") or k1 is None:
                    return loop
                i_ = strip(inc)
                ok_inc = (i_.get("k") == "UnaryOperator" and i_.get("op") in ("++", "post++", "pre++") and strip(i_["c"][0]).get("k") == "DeclRefExpr" and strip(i_["c"][0])["ref"].get("did") == iv["did"]) or \
                         (i_.get("k") == "CompoundAssignOperator" and i_.get("op") == "+=" and strip(i_["c"][0]).get("k") == "DeclRefExpr" and strip(i_["c"][0])["ref"].get("did") == iv["did"] and _int_lit(i_["c"][1]) == 1)
                if not ok_inc:
                    return loop
                hi = k1 + 1 if c["op"] == "<=" else k1
                trip = hi - k0
                if trip < 0 or trip > MAX_TRIP or (c["op"] == "!=" and k1 < k0):
                    return loop
                # the body reads i only
                for x in walk(body):
                    k = x.get("k")
                    if k in ("BinaryOperator", "CompoundAssignOperator") and (x.get("op") == "=" or k == "CompoundAssignOperator"):
                        t = strip(x["c"][0])
                        if t.get("k") == "DeclRefExpr" and (t.get("ref") or {}).get("did") == iv["did"]:
                            return loop
                    if k == "UnaryOperator" and x.get("op") in ("++", "--", "post++", "post--", "pre++", "pre--", "&") and x.get("c"):
                        t = strip(x["c"][0])
                        if t.get("k") == "DeclRefExpr" and (t.get("ref") or {}).get("did") == iv["did"]:
                            return loop
                    if k == "Var" and (x.get("t") or "").rstrip().endswith("&") and isinstance(x.get("init"), dict):
                        t = strip(x["init"])
                        if t.get("k") == "DeclRefExpr" and (t.get("ref") or {}).get("did") == iv["did"]:
                            return loop
                    if k == "LambdaExpr" and any(cp.get("did") == iv["did"] and cp.get("byref") for cp in x.get("captures", [])):
                        return loop
                if _own_jumps(body):
                    return loop
                copies = []
                for val in range(k0, hi):
                    mapping = {}
                    for d in _declared(body):
                        mapping[d] = counter[0]
                        counter[0] += 1
                    b = _remap(body, mapping)

                    def sub(n, val=val):
                        if n.get("k") == "DeclRefExpr" and (n.get("ref") or {}).get("did") == iv["did"]:
                            return {"k": "IntegerLiteral", "v": str(val), "t": iv.get("t"), "l": n.get("l"), "unrolled_from": iv.get("name")}
                        return n
                    b = _rewrite(b, sub)
                    if b.get("k") != "CompoundStmt":
                        b = {"k": "CompoundStmt", "l": loop.get("l"), "c": [b]}
                    b["inlined_lambda"] = True
                    copies.append(b)
                changed[0] += 1
                return {"k": "CompoundStmt", "l": loop.get("l"), "c": copies, "inlined_lambda": True, "unrolled_loop": "%s=%d..%d" % (iv.get("name"), k0, hi - 1)}

            fn["body"] = _rewrite(fn["body"], unroll)
            total += changed[0]
            if not changed[0]:
                break
        fn.pop("_stable_locals", None)
    return total


_ARR1 = re.compile(r"^(const )?std::array<(double|float|int|unsigned int|unsigned long|long|short|unsigned short|bool), (\d)>$")
_ARR2 = re.compile(r"^(const )?std::array<std::array<(double|float|int|unsigned int|unsigned long), (\d)>, (\d)>$")
_ACCESSOR = {"vec3": ("vec3::dx", "vec3::dy", "vec3::dz")}


def scalarise_local_arrays(prog, repo_prefix):
    """A small local std::array (1-D, or 2-D of scalars) that is only ever used element-wise with literal indices (after the
    unrolling above), filled with .fill(v), or - for a 2-D array - read one whole row at a time as an argument, is replaced by one
    scalar local per element ('scalar replacement of aggregates'); a const array initialised from vec3::to_array() of an unchanging
    object has its element reads replaced by the corresponding accessor (dx/dy/dz).  Rules that follow scalars by declaration then
    decide the array form as well."""
    total = 0
    for fn in _repo_fns(prog, repo_prefix):
        cands = {}
        for v in walk(fn["body"]):
            if v.get("k") == "Var" and not v.get("static_local") and (_ARR1.match(v.get("t") or "") or _ARR2.match(v.get("t") or "")):
                cands[v["did"]] = v
        if not cands:
            continue
        # parents
        parent = {}
        for n in walk(fn["body"]):
            from .model import children as _ch
            for c in _ch(n):
                parent[id(c)] = n
        if any(x.get("k") == "LambdaExpr" and any(cp.get("did") in cands for cp in x.get("captures", [])) for x in walk(fn["body"])):
            for x in walk(fn["body"]):
                if x.get("k") == "LambdaExpr":
                    for cp in x.get("captures", []):
                        cands.pop(cp.get("did"), None)
        fresh = [max(list(_all_dids(fn["body"])) + [_FRESH * 17]) + 1]
        plans = {}
        for did, v in list(cands.items()):
            t = v.get("t") or ""
            m1, m2 = _ARR1.match(t), _ARR2.match(t)
            const = t.startswith("const ")
            elem_t = (m1 or m2).group(2)
            dims = (int(m1.group(3)),) if m1 else (int(m2.group(4)), int(m2.group(3)))
            uses = [x for x in walk(fn["body"]) if x.get("k") == "DeclRefExpr" and (x.get("ref") or {}).get("did") == did]
            plan = {"elem": [], "fill": [], "row": [], "var": v, "dims": dims, "elem_t": elem_t, "const": const, "mode": None}
            ok = True

            def up(n):
                p = parent.get(id(n))
                while p is not None and p.get("k") in ("ImplicitCastExpr", "ParenExpr") and len(p.get("c", [])) == 1:
                    n, p = p, parent.get(id(p))
                return n, p
            for u in uses:
                n, p = up(u)
                if p is not None and p.get("k") == "CXXOperatorCallExpr" and p.get("op") == "[]" and len(p.get("c", [])) == 3 and p["c"][1] is n:
                    k = _int_lit(p["c"][2])
                    if k is None or not (0 <= k < dims[0]):
                        ok = False
                        break
                    if len(dims) == 1:
                        plan["elem"].append((p, (k,)))
                    else:
                        n2, p2 = up(p)
                        if p2 is not None and p2.get("k") == "CXXOperatorCallExpr" and p2.get("op") == "[]" and len(p2.get("c", [])) == 3 and p2["c"][1] is n2:
                            k2 = _int_lit(p2["c"][2])
                            if k2 is None or not (0 <= k2 < dims[1]):
                                ok = False
                                break
                            plan["elem"].append((p2, (k, k2)))
                        else:
                            q = p2
                            while q is not None and q.get("k") in ("MaterializeTemporaryExpr", "ImplicitCastExpr", "CXXBindTemporaryExpr"):
                                q = parent.get(id(q))
                            if q is not None and q.get("k") in ("CXXConstructExpr", "CXXTemporaryObjectExpr", "InitListExpr"):
                                plan["row"].append((p, k))
                            else:
                                ok = False
                                break
                elif p is not None and p.get("k") == "MemberExpr" and (p.get("ref") or {}).get("name") == "fill" and len(dims) == 1 and not const:
                    call = parent.get(id(p))
                    holder = parent.get(id(call)) if call is not None else None
                    if holder is not None and holder.get("k") == "ExprWithCleanups":
                        call_top, holder = holder, parent.get(id(holder))
                    else:
                        call_top = call
                    if call is None or call.get("k") != "CXXMemberCallExpr" or holder is None or holder.get("k") != "CompoundStmt" or len(call.get("c", [])) != 2 or not _effect_free_calls_ok(call["c"][1]):
                        ok = False
                        break
                    plan["fill"].append((call_top, call["c"][1]))
                else:
                    ok = False
                    break
            if not ok or not uses:
                continue
            init = v.get("init")
            i0 = strip(init) if isinstance(init, dict) else None
            while i0 is not None and i0.get("k") in ("ExprWithCleanups", "ImplicitCastExpr", "MaterializeTemporaryExpr", "CXXBindTemporaryExpr") and len(i0.get("c", [])) == 1:
                i0 = strip(i0["c"][0])
            n_el = dims[0] * (dims[1] if len(dims) == 2 else 1)
            if i0 is None or (i0.get("k") == "CXXConstructExpr" and not i0.get("c")):
                if const:
                    continue
                plan["mode"], plan["inits"] = "scalars", [None] * n_el
            elif i0.get("k") == "InitListExpr":
                leaves = []

                def flat(e):
                    if e.get("k") == "InitListExpr":
                        for c in e.get("c", []) or []:
                            if isinstance(c, dict):
                                flat(c)
                    elif e.get("k") in ("ImplicitValueInitExpr", "ArrayInitLoopExpr"):
                        pass
                    else:
                        leaves.append(e)
                flat(i0)
                if len(leaves) not in (0, n_el):
                    continue
                zero = {"k": "FloatingLiteral", "v": "0", "t": elem_t} if elem_t in ("double", "float") else {"k": "IntegerLiteral", "v": "0", "t": elem_t}
                plan["mode"], plan["inits"] = "scalars", (leaves if leaves else [dict(zero) for _ in range(n_el)])
            elif i0.get("k") == "CXXMemberCallExpr" and i0.get("callee") == "vec3::to_array" and const and len(dims) == 1 and dims[0] == 3 and not plan["fill"]:
                me = strip(i0["c"][0])
                obj = me["c"][0] if me.get("k") == "MemberExpr" and me.get("c") else None
                if obj is None or not _effect_free_calls_ok(obj):
                    continue
                roots_const = all((x.get("t") or "").startswith("const ") for x in walk(obj) if x.get("k") in ("DeclRefExpr", "CXXThisExpr") and (x.get("k") == "CXXThisExpr" or (x.get("ref") or {}).get("dk") in ("Var", "ParmVar", "Binding")))
                if not roots_const:
                    continue
                plan["mode"], plan["obj"] = "accessor", obj
            else:
                continue
            plans[did] = plan
        if not plans:
            continue
        repl = {}       # id(node) -> replacement node
        decl_repl = {}  # did -> list of new Var
        for did, plan in plans.items():
            v = plan["var"]
            dims = plan["dims"]
            if plan["mode"] == "accessor":
                for node, idx in plan["elem"]:
                    acc = _ACCESSOR["vec3"][idx[0]]
                    ck = [f_["key"] for f_ in prog.functions.values() if f_.get("qn") == acc and not f_.get("params")]
                    repl[id(node)] = {"k": "CXXMemberCallExpr", "callee": acc, "ckey": ck[0] if ck else None, "cconst": True, "t": "double", "l": node.get("l"), "sroa_of": v.get("name"),
                                      "c": [{"k": "MemberExpr", "arrow": False, "t": "<bound member function type>", "l": node.get("l"), "ref": {"name": acc.split("::")[1], "dk": "CXXMethod", "qn": acc}, "c": [copy.deepcopy(plan["obj"])]}]}
                total += 1
                continue
            names = {}
            news = []
            idxs = [(i,) for i in range(dims[0])] if len(dims) == 1 else [(i, j) for i in range(dims[0]) for j in range(dims[1])]
            for pos, idx in enumerate(idxs):
                nd = fresh[0]
                fresh[0] += 1
                nm = "%s_%s" % (v.get("name"), "_".join(map(str, idx)))
                names[idx] = (nd, nm)
                nv = {"k": "Var", "did": nd, "name": nm, "t": ("const " if plan["const"] else "") + plan["elem_t"], "l": v.get("l"), "sroa_of": v.get("name")}
                if plan["inits"][pos] is not None:
                    nv["init"] = plan["inits"][pos]
                news.append(nv)
            decl_repl[did] = news

            def ref(idx, l):
                nd, nm = names[idx]
                return {"k": "DeclRefExpr", "t": plan["elem_t"], "vc": "l", "l": l, "ref": {"did": nd, "dk": "Var", "name": nm}}
            for node, idx in plan["elem"]:
                repl[id(node)] = ref(idx, node.get("l"))
            for node, k in plan["row"]:
                repl[id(node)] = {"k": "InitListExpr", "t": "std::array<%s, %d>" % (plan["elem_t"], dims[1]), "l": node.get("l"), "sroa_of": v.get("name"), "c": [ref((k, j), node.get("l")) for j in range(dims[1])]}
            for node, arg in plan["fill"]:
                repl[id(node)] = {"k": "CompoundStmt", "inlined_lambda": True, "l": node.get("l"), "sroa_of": v.get("name"),
                                  "c": [{"k": "BinaryOperator", "op": "=", "t": plan["elem_t"], "l": node.get("l"), "c": [ref(idx, node.get("l")), copy.deepcopy(arg)]} for idx in idxs]}
            total += 1

        def apply(n):
            r = repl.get(id(n))
            if r is not None:
                return r
            if n.get("k") == "DeclStmt" and any(isinstance(d, dict) and d.get("did") in decl_repl for d in n.get("decls", [])):
                out = []
                for d in n["decls"]:
                    if isinstance(d, dict) and d.get("did") in decl_repl:
                        out.extend(decl_repl[d["did"]])
                    else:
                        out.append(d)
                n["decls"] = out
            return n
        # pre-order replacement (a replaced node is not descended into: its sub-nodes belong to the old form)
        def pre(n):
            r = repl.get(id(n))
            if r is not None:
                return r
            for key in _SUBKEYS + ("var", "condvar"):
                if isinstance(n.get(key), dict):
                    n[key] = pre(n[key])
            for key in ("c", "decls", "handlers"):
                if isinstance(n.get(key), list):
                    n[key] = [pre(x) if isinstance(x, dict) else x for x in n[key]]
            return apply(n)
        fn["body"] = pre(fn["body"])
        _declare_at_single_assignment(fn, {nv["did"] for news in decl_repl.values() for nv in news})
        fn.pop("_stable_locals", None)
    return total


def _declare_at_single_assignment(fn, dids):
    """A scalar (element of a scalarised array) that is declared without a meaningful value ('{}' or nothing), then assigned exactly
    once by a statement that runs exactly once (only blocks between it and the function body) before every read, is declared at
    that assignment instead: `T s{}; ...; s = E;` -> `...; T s = E;`.  Same values everywhere it is read."""
    from .model import children as _ch
    order, parent = {}, {}
    for i, n in enumerate(walk(fn["body"])):
        order[id(n)] = i
        for c in _ch(n):
            parent[id(c)] = n
    for did in dids:
        decl = [v for v in walk(fn["body"]) if v.get("k") == "Var" and v.get("did") == did]
        if len(decl) != 1:
            continue
        decl = decl[0]
        init = decl.get("init")
        if isinstance(init, dict) and not (strip(init).get("k") in ("IntegerLiteral", "FloatingLiteral") and float(strip(init).get("v", "1")) == 0.0):
            continue
        refs = [x for x in walk(fn["body"]) if x.get("k") == "DeclRefExpr" and (x.get("ref") or {}).get("did") == did]
        writes = []
        for r in refs:
            p = parent.get(id(r))
            while p is not None and p.get("k") in ("ParenExpr",):
                r, p = p, parent.get(id(p))
            if p is not None and ((p.get("k") == "BinaryOperator" and p.get("op") == "=") or p.get("k") == "CompoundAssignOperator" or (p.get("k") == "UnaryOperator" and p.get("op") in ("++", "--", "post++", "post--", "pre++", "pre--", "&"))) and p["c"][0] is r:
                writes.append((r, p))
        if len(writes) != 1 or writes[0][1].get("k") != "BinaryOperator":
            continue
        wref, w = writes[0]
        holder = parent.get(id(w))
        top = w
        if holder is not None and holder.get("k") == "ExprWithCleanups":
            top, holder = holder, parent.get(id(holder))
        if holder is None or holder.get("k") != "CompoundStmt":
            continue
        q, once = holder, True
        while q is not None and q is not fn["body"]:
            if q.get("k") != "CompoundStmt":
                once = False
                break
            q = parent.get(id(q))
        if not once:
            continue
        end_w = max(order[id(x)] for x in walk(w))
        if any(order[id(r)] <= end_w for r in refs if r is not wref):
            continue
        # move the declaration
        newdecl = {"k": "DeclStmt", "l": w.get("l"), "decls": [dict(decl, init=w["c"][1], l=w.get("l"))], "declared_at_assignment": True}
        holder["c"] = [newdecl if x is top else x for x in holder["c"]]
        for ds in walk(fn["body"]):
            if ds.get("k") == "DeclStmt" and ds is not newdecl and any(d is decl for d in ds.get("decls", [])):
                ds["decls"] = [d for d in ds["decls"] if d is not decl]


def if_convert_and_sink_declarations(prog, repo_prefix):
    """Two exact local rewrites, applied to every repository function:
    (1) `T v = A; if(c) v = B;` (consecutive statements; c, A, B without effects, c and B do not mention v; v is written nowhere
        else) -> `T v = c ? B : A;`
    (2) a result variable created by the inliner (`T r;` followed later by exactly one unconditional `r = E;` that precedes every
        read) is declared at that assignment (`T r = E;`).
    Both give every read of the variable the same value as before; they let rules see `v` as a single-assignment local."""
    total = 0
    for fn in _repo_fns(prog, repo_prefix):
        body = fn["body"]
        writes = {}
        for x in walk(body):
            k = x.get("k")
            t = None
            if (k == "BinaryOperator" and x.get("op") == "=") or k == "CompoundAssignOperator":
                t = strip(x["c"][0])
            elif k == "UnaryOperator" and x.get("op") in ("++", "--", "post++", "post--", "pre++", "pre--", "&") and x.get("c"):
                t = strip(x["c"][0])
            if t is not None and t.get("k") == "DeclRefExpr" and (t.get("ref") or {}).get("did") is not None:
                writes.setdefault(t["ref"]["did"], []).append(x)
        refbound = {strip(v["init"])["ref"]["did"] for v in walk(body) if v.get("k") == "Var" and (v.get("t") or "").rstrip().endswith("&") and isinstance(v.get("init"), dict) and strip(v["init"]).get("k") == "DeclRefExpr" and (strip(v["init"]).get("ref") or {}).get("did") is not None}
        changed = 0

        def mentions(e, did):
            return any(x.get("k") == "DeclRefExpr" and (x.get("ref") or {}).get("did") == did for x in walk(e))

        def visit(n):
            nonlocal changed
            for key in _SUBKEYS + ("var",):
                if isinstance(n.get(key), dict):
                    visit(n[key])
            for key in ("decls", "handlers"):
                for x in n.get(key, []) or []:
                    if isinstance(x, dict):
                        visit(x)
            if isinstance(n.get("c"), list):
                for x in n["c"]:
                    if isinstance(x, dict):
                        visit(x)
                if n.get("k") == "CompoundStmt":
                    out, i = [], 0
                    c = n["c"]
                    while i < len(c):
                        s0 = c[i]
                        s1 = c[i + 1] if i + 1 < len(c) else None
                        done = False
                        if s0.get("k") == "DeclStmt" and len(s0.get("decls", [])) == 1 and s0["decls"][0].get("k") == "Var" and isinstance(s0["decls"][0].get("init"), dict) \
                                and isinstance(s1, dict) and s1.get("k") == "IfStmt" and not isinstance(s1.get("else"), dict) and "condvar" not in s1:
                            v = s0["decls"][0]
                            then = s1["then"]
                            st = then.get("c", []) if then.get("k") == "CompoundStmt" else [then]
                            if len(st) == 1:
                                a = strip(st[0])
                                if a.get("k") == "BinaryOperator" and a.get("op") == "=" and strip(a["c"][0]).get("k") == "DeclRefExpr" and strip(a["c"][0])["ref"].get("did") == v["did"] \
                                        and len(writes.get(v["did"], [])) == 1 and v["did"] not in refbound and not (v.get("t") or "").rstrip().endswith("&") \
                                        and _effect_free_calls_ok(s1["cond"]) and _effect_free_calls_ok(a["c"][1]) and _effect_free_calls_ok(v["init"]) \
                                        and not mentions(s1["cond"], v["did"]) and not mentions(a["c"][1], v["did"]) \
                                        and re.match(r"^(const )?(unsigned |signed |long |short )*(int|long|short|char|bool|double|float|size_t|std::size_t|unsigned|unsigned int|unsigned long)$", (v.get("t") or "").strip()):
                                    nv = dict(v)
                                    nv["init"] = {"k": "ConditionalOperator", "t": v.get("t"), "l": s1.get("l"), "if_converted": True, "c": [s1["cond"], a["c"][1], v["init"]]}
                                    out.append(dict(s0, decls=[nv]))
                                    writes[v["did"]] = []
                                    i += 2
                                    changed += 1
                                    done = True
                        if not done:
                            out.append(s0)
                            i += 1
                    n["c"] = out
        visit(body)
        res = {v["did"] for d in walk(body) if d.get("k") == "DeclStmt" and d.get("result_of_inlined_call") for v in d.get("decls", []) if isinstance(v, dict) and not isinstance(v.get("init"), dict)}
        if res:
            _declare_at_single_assignment(fn, res)
        if changed or res:
            fn.pop("_stable_locals", None)
        total += changed
    return total


def pointer_views_to_subscripts(prog, repo_prefix):
    """`const T* const p = v.data() + off;` (or `= v.data()`, `= &v[off]`) with every use of p of the form `p[k]`, v a std::vector /
    std::array designated by an effect-free expression: `p[k]` is replaced by `v[off + k]` (`v[k]`).  The pointer is only another
    name for a window of the container."""
    total = 0
    for fn in _repo_fns(prog, repo_prefix):
        cands = [v for v in walk(fn["body"]) if v.get("k") == "Var" and re.match(r"^(const )?[\w:<> ,]+ \*\s*(const)?$", v.get("t") or "") and isinstance(v.get("init"), dict) and not v.get("static_local")]
        if not cands:
            continue
        from .model import children as _ch
        parent = {}
        for n in walk(fn["body"]):
            for c in _ch(n):
                parent[id(c)] = n
        repl = {}
        for v in cands:
            i0 = strip(v["init"])
            while i0.get("k") in ("ParenExpr", "ImplicitCastExpr") and i0.get("c"):
                i0 = strip(i0["c"][0])
            base = off = None
            if i0.get("k") == "BinaryOperator" and i0.get("op") == "+" and len(i0.get("c", [])) == 2:
                l = strip(i0["c"][0])
                if l.get("k") == "CXXMemberCallExpr" and re.match(r"^std::(vector|array)<.*>::data$", l.get("callee", "")):
                    base, off = l, i0["c"][1]
            elif i0.get("k") == "CXXMemberCallExpr" and re.match(r"^std::(vector|array)<.*>::data$", i0.get("callee", "")):
                base, off = i0, None
            if base is None:
                continue
            me = strip(base["c"][0])
            obj = me["c"][0] if me.get("k") == "MemberExpr" and me.get("c") else None
            if obj is None or not _effect_free_calls_ok(obj) or (off is not None and not _effect_free_calls_ok(off)):
                continue
            # p itself is never written, every use is p[k]
            uses = [x for x in walk(fn["body"]) if x.get("k") == "DeclRefExpr" and (x.get("ref") or {}).get("did") == v["did"]]
            subs, ok = [], bool(uses)
            for u in uses:
                n, p_ = u, parent.get(id(u))
                while p_ is not None and p_.get("k") in ("ImplicitCastExpr", "ParenExpr") and len(p_.get("c", [])) == 1:
                    n, p_ = p_, parent.get(id(p_))
                if p_ is not None and p_.get("k") == "ArraySubscriptExpr" and p_["c"][0] is n:
                    subs.append(p_)
                else:
                    ok = False
                    break
            # the offset's variables are not written while the pointer is alive (inside the block that declares it): the window
            # does not move
            if ok and off is not None:
                odids = {x["ref"].get("did") for x in walk(off) if x.get("k") == "DeclRefExpr" and isinstance(x.get("ref"), dict)}
                scope = parent.get(id(parent.get(id(v), v)), fn["body"])
                if scope.get("k") != "CompoundStmt":
                    scope = fn["body"]
                for x in walk(scope):
                    if (x.get("k") == "BinaryOperator" and x.get("op") == "=") or x.get("k") == "CompoundAssignOperator" or (x.get("k") == "UnaryOperator" and x.get("op") in ("++", "--", "post++", "post--", "pre++", "pre--")):
                        t = strip(x["c"][0])
                        if t.get("k") == "DeclRefExpr" and (t.get("ref") or {}).get("did") in odids:
                            ok = False
            if not ok:
                continue
            ctype = re.sub(r"^const\s+", "", (strip(obj).get("t") or "")).strip()
            for sub in subs:
                idx = sub["c"][1]
                index = idx if off is None else {"k": "BinaryOperator", "op": "+", "t": "unsigned long", "l": sub.get("l"), "c": [copy.deepcopy(off), idx]}
                repl[id(sub)] = {"k": "CXXOperatorCallExpr", "op": "[]", "callee": "%s::operator[]" % ctype, "cmember": True, "cconst": True, "t": sub.get("t"), "l": sub.get("l"), "pointer_view_of": v.get("name"),
                                 "c": [{"k": "ImplicitCastExpr", "ck": "FunctionToPointerDecay", "t": "", "c": [{"k": "DeclRefExpr", "t": "", "ref": {"did": None, "name": "operator[]", "dk": "CXXMethod"}}]}, copy.deepcopy(obj), index]}
            total += 1
        if repl:
            def pre(n):
                r = repl.get(id(n))
                if r is not None:
                    return r
                for key in _SUBKEYS + ("var", "condvar"):
                    if isinstance(n.get(key), dict):
                        n[key] = pre(n[key])
                for key in ("c", "decls", "handlers"):
                    if isinstance(n.get(key), list):
                        n[key] = [pre(x) if isinstance(x, dict) else x for x in n[key]]
                return n
            fn["body"] = pre(fn["body"])
            fn.pop("_stable_locals", None)
    return total


def thread_constant_switches(prog, repo_prefix):
    """`T r; <code that assigns r one of several constants, each assignment being the last thing executed on its path>;
    switch(r){ case K1: S1; break; case K2: S2; break; ... }` with r used nowhere else: every `r = Ki;` is replaced by Si (the
    statements of that case without its final break) and the switch is removed (jump threading).  The program executes the same
    statements in the same order; rules then see `S_i` under the conditions that selected K_i."""
    total = 0

    def const_key(e):
        e = strip(e)
        while e.get("k") in ("ConstantExpr", "ImplicitCastExpr", "ParenExpr", "CXXFunctionalCastExpr", "CStyleCastExpr") and len([c for c in e.get("c", []) if isinstance(c, dict)]) == 1:
            e = strip([c for c in e["c"] if isinstance(c, dict)][0])
        if e.get("k") == "DeclRefExpr" and (e.get("ref") or {}).get("dk") == "EnumConstant":
            return ("enum", e["ref"].get("did"), e["ref"].get("name"))
        if e.get("k") in ("IntegerLiteral", "CXXBoolLiteralExpr", "CharacterLiteral"):
            return ("lit", str(e.get("v")))
        return None

    def cases_of(sw):
        body = sw.get("body") or {}
        if body.get("k") != "CompoundStmt":
            return None
        cases, cur, labels = {}, None, []
        default = None
        items = []
        for st in body.get("c", []):
            inner = st
            labs = []
            while inner.get("k") in ("CaseStmt", "DefaultStmt"):
                labs.append(inner)
                inner = inner.get("sub") or {"k": "NullStmt"}
            if labs:
                items.append((labs, [inner]))
            elif items:
                items[-1][1].append(st)
            else:
                return None
        for labs, stmts in items:
            # must end with break / return / throw (no fall through into the next labelled group)
            if not stmts:
                return None
            last = stmts[-1]
            if last.get("k") == "BreakStmt":
                stmts = stmts[:-1]
            elif last.get("k") == "CompoundStmt" and last.get("c") and last["c"][-1].get("k") == "BreakStmt":
                stmts = stmts[:-1] + [dict(last, c=last["c"][:-1])]
            elif last.get("k") == "CompoundStmt" and _always_returns(last):
                pass
            elif not (last.get("k") == "ReturnStmt" or strip(last).get("k") == "CXXThrowExpr" or (items[-1][1] is stmts)):
                return None
            if any(x.get("k") == "BreakStmt" and not _inside_loop_or_switch(st_, x) for st_ in stmts for x in walk(st_, into_lambdas=False)):
                return None
            for lb in labs:
                if lb.get("k") == "DefaultStmt":
                    default = stmts
                else:
                    k = const_key(lb.get("value") or {})
                    if k is None:
                        return None
                    cases[k] = stmts
        return cases, default

    for fn in _repo_fns(prog, repo_prefix):
        if not any(x.get("k") == "SwitchStmt" for x in walk(fn["body"])):
            continue
        counter = [max(list(_all_dids(fn["body"])) + [_FRESH * 23]) + 1]

        def visit(n):
            nonlocal total
            for key in _SUBKEYS + ("var",):
                if isinstance(n.get(key), dict):
                    visit(n[key])
            for key in ("decls", "handlers"):
                for x in n.get(key, []) or []:
                    if isinstance(x, dict):
                        visit(x)
            if not isinstance(n.get("c"), list):
                return
            for x in n["c"]:
                if isinstance(x, dict):
                    visit(x)
            if n.get("k") != "CompoundStmt":
                return
            flat = list(n["c"])
            i = 0
            while i < len(flat):
                sw = flat[i]
                if isinstance(sw, dict) and sw.get("k") == "SwitchStmt" and isinstance(sw.get("cond"), dict):
                    c0 = strip(sw["cond"])
                    while c0.get("k") in ("ImplicitCastExpr", "ParenExpr") and len([c for c in c0.get("c", []) if isinstance(c, dict)]) == 1:
                        c0 = strip([c for c in c0["c"] if isinstance(c, dict)][0])
                    if c0.get("k") == "DeclRefExpr" and (c0.get("ref") or {}).get("dk") == "Var" and i >= 1:
                        rd = c0["ref"]["did"]
                        prev = flat[i - 1]
                        cs = cases_of(sw)
                        uses = [u for u in walk(fn["body"]) if u.get("k") == "DeclRefExpr" and (u.get("ref") or {}).get("did") == rd]
                        assigns = [a for a in walk(prev) if a.get("k") == "BinaryOperator" and a.get("op") == "=" and strip(a["c"][0]).get("k") == "DeclRefExpr" and strip(a["c"][0])["ref"].get("did") == rd] if isinstance(prev, dict) else []
                        if cs is not None and assigns and len(uses) == len(assigns) + 1 and all(const_key(a["c"][1]) is not None for a in assigns) and _tail_assignments(prev, assigns):
                            cases, default = cs
                            repl = {}
                            cont = flat[i + 1:]          # what follows the switch: executed by the cases that do not return
                            moved_cont = False
                            for a in assigns:
                                k = const_key(a["c"][1])
                                stmts = list(cases.get(k, default if default is not None else []))
                                falls_out = not (stmts and (_always_returns({"k": "CompoundStmt", "c": stmts}) or strip(stmts[-1]).get("k") == "CXXThrowExpr"))
                                if falls_out and cont:
                                    stmts = stmts + cont
                                    moved_cont = True
                                mapping = {}
                                for st_ in stmts:
                                    for d in _declared(st_):
                                        mapping[d] = counter[0]
                                        counter[0] += 1
                                repl[id(a)] = {"k": "CompoundStmt", "l": a.get("l"), "inlined_lambda": True, "threaded_case": str(k[-1]), "c": [_remap(st_, mapping) for st_ in stmts]}
                            if moved_cont:
                                # references from outside to declarations of the moved continuation cannot exist (it was the tail
                                # of the block); the original copy is dropped
                                del flat[i + 1:]

                            def sub(m):
                                # the assignment may be wrapped (ExprWithCleanups)
                                core = strip(m)
                                if id(core) in repl:
                                    return repl[id(core)]
                                if id(m) in repl:
                                    return repl[id(m)]
                                return m
                            flat[i - 1] = _rewrite(prev, sub)
                            del flat[i]
                            total += 1
                            continue
                i += 1
            n["c"] = flat
        visit(fn["body"])
        fn.pop("_stable_locals", None)
    return total


def _inside_loop_or_switch(root, node):
    """is node nested in a loop / switch that lies inside root?"""
    from .model import children as _ch
    def rec(n, inside):
        if n is node:
            return inside
        for c in _ch(n):
            r = rec(c, inside or n.get("k") in ("ForStmt", "WhileStmt", "DoStmt", "CXXForRangeStmt", "SwitchStmt"))
            if r is not None:
                return r
        return None
    return bool(rec(root, False))


def _tail_assignments(block, assigns):
    """every assignment in `assigns` is the last statement executed on its path through `block` (tail positions of nested
    blocks and if/else branches only)"""
    ids = {id(a) for a in assigns}
    found = set()

    def tail(n):
        k = n.get("k")
        if k == "CompoundStmt":
            st = n.get("c", [])
            return tail(st[-1]) if st else False
        if k == "IfStmt":
            if not isinstance(n.get("else"), dict):
                return False
            return tail(n["then"]) and tail(n["else"])
        core = strip(n)
        if id(core) in ids or id(n) in ids:
            found.add(id(core) if id(core) in ids else id(n))
            return True
        return False
    ok = tail(block)
    return ok and found == ids


def sink_single_assignments(prog, repo_prefix):
    """In functions that contain inlined code: a local that is declared with no value (or a literal / default-constructed one),
    is assigned exactly once by a statement of some block H, and is read only after that statement and inside H, is declared at
    that assignment instead (`T v; ...; v = E;` -> `...; T v = E;`).  Every read sees the same value; the variable becomes a
    single-assignment local that the rules can follow."""
    from .model import children as _ch
    total = 0
    for fn in _repo_fns(prog, repo_prefix):
        body = fn["body"]
        if not any(x.get("inlined_lambda") or x.get("inlined_helper") for x in walk(body) if x.get("k") == "CompoundStmt"):
            continue
        order, parent = {}, {}
        for i, n in enumerate(walk(body)):
            order[id(n)] = i
            for c in _ch(n):
                parent[id(c)] = n
        captured = {c_.get("did") for x in walk(body) if x.get("k") == "LambdaExpr" for c_ in x.get("captures", [])}
        decls = {}
        for ds in walk(body):
            if ds.get("k") == "DeclStmt":
                for v in ds.get("decls", []):
                    if isinstance(v, dict) and v.get("k") == "Var" and not v.get("static_local") and not (v.get("t") or "").rstrip().endswith("&") and v.get("did") not in captured:
                        i0 = v.get("init")
                        ok_init = not isinstance(i0, dict)
                        if isinstance(i0, dict):
                            j = strip(i0)
                            ok_init = j.get("k") in ("IntegerLiteral", "FloatingLiteral", "CXXBoolLiteralExpr") or (j.get("k") == "CXXConstructExpr" and not [c for c in j.get("c", []) if isinstance(c, dict)]) or j.get("k") == "ImplicitValueInitExpr"
                        if ok_init:
                            decls[v["did"]] = (ds, v)
        if not decls:
            continue
        refs = {}
        for x in walk(body):
            if x.get("k") == "DeclRefExpr" and (x.get("ref") or {}).get("did") in decls:
                refs.setdefault(x["ref"]["did"], []).append(x)
        changed = 0
        for did, (ds, v) in decls.items():
            rs = refs.get(did, [])
            writes = []
            for r in rs:
                p_ = parent.get(id(r))
                n_ = r
                while p_ is not None and p_.get("k") in ("ParenExpr", "ImplicitCastExpr"):
                    n_, p_ = p_, parent.get(id(p_))
                if p_ is None:
                    continue
                if p_.get("k") == "BinaryOperator" and p_.get("op") == "=" and p_["c"][0] is n_:
                    writes.append((r, p_, p_["c"][1]))
                elif p_.get("k") == "CXXOperatorCallExpr" and p_.get("op") == "=" and len(p_.get("c", [])) == 3 and p_["c"][1] is n_:
                    writes.append((r, p_, p_["c"][2]))
                elif p_.get("k") == "CompoundAssignOperator" and p_["c"][0] is n_:
                    writes.append((r, p_, None))
                elif p_.get("k") == "UnaryOperator" and p_.get("op") in ("++", "--", "post++", "post--", "pre++", "pre--", "&"):
                    writes.append((r, p_, None))
                elif p_.get("k") == "CXXOperatorCallExpr" and p_.get("op") in ("+=", "-=", "*=", "/=", "++", "--") and len(p_.get("c", [])) >= 2 and p_["c"][1] is n_:
                    writes.append((r, p_, None))
                elif p_.get("k") == "MemberExpr":
                    call = parent.get(id(p_))
                    if call is not None and call.get("k") == "CXXMemberCallExpr" and not call.get("cconst"):
                        writes.append((r, call, None))
            if len(writes) != 1 or writes[0][2] is None:
                continue
            wref, w, rhs = writes[0]
            holder, top = parent.get(id(w)), w
            if holder is not None and holder.get("k") == "ExprWithCleanups":
                top, holder = holder, parent.get(id(holder))
            if holder is None or holder.get("k") != "CompoundStmt" or not any(x is top for x in holder.get("c", [])):
                continue
            end_w = max(order[id(x)] for x in walk(w))
            h_eff = holder
            while h_eff.get("inlined_lambda") and not h_eff.get("threaded_case") and parent.get(id(h_eff)) is not None and parent[id(h_eff)].get("k") == "CompoundStmt":
                h_eff = parent[id(h_eff)]       # a block that only exists because a call was inlined is not a scope of the source
            inside = {id(x) for x in walk(h_eff)}
            if any((order[id(r)] <= end_w or id(r) not in inside) for r in rs if r is not wref):
                continue
            if any(x.get("k") == "DeclRefExpr" and (x.get("ref") or {}).get("did") == did for x in walk(rhs)):
                continue
            # the holder must not be a loop body that is re-entered with the old value expected: the declaration would simply
            # be per iteration, which is the same since every read follows the assignment inside the holder
            newdecl = {"k": "DeclStmt", "l": w.get("l"), "decls": [dict({k_: v_ for k_, v_ in v.items() if k_ != "init"}, init=rhs, l=w.get("l"))], "declared_at_assignment": True}
            holder["c"] = [newdecl if x is top else x for x in holder["c"]]
            ds["decls"] = [d for d in ds["decls"] if d is not v]
            changed += 1
        if changed:
            total += changed
            fn.pop("_stable_locals", None)
    return total
