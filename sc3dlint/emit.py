"""Emission traces: what a statement sequence writes to an output stream, as an abstract sequence.

A trace is a list of
    ("item", expr)                       one operand handed to the stream (an expression node)
    ("loop", key, elem, [trace])         a loop that emits `trace` once per element of the container `key`
                                         (elem: dids of the loop's element / index variables)
It is computed by abstract interpretation of the statements over the domain "text emitted so far": `stream << a << b`,
`std::string s = a + b; s += c; stream << s;`, range-for and index / iterator loops over a container. A statement that may emit
conditionally (an `if` around an emission, a `while`, a call that receives the stream) makes the trace Unknown: the rules built on
traces then answer *no verdict*.  Nothing is executed and no string value is computed - only the sequence of operands."""
from .model import walk, strip, render, call_args, call_obj, stable_locals


class Unknown(Exception):
    pass


def _is_stream(t):
    t = t or ""
    return "stream" in t and "string" not in t.replace("stringstream", "stream")


def _is_string(t):
    t = (t or "").replace("const ", "").replace("&", "").strip()
    return t in ("std::string", "std::basic_string<char>", "std::__cxx11::basic_string<char>", "std::__cxx11::string")


def _peel(e):
    e = strip(e)
    while e.get("k") in ("ParenExpr", "ExprWithCleanups", "MaterializeTemporaryExpr", "CXXBindTemporaryExpr", "ImplicitCastExpr") and len([c for c in e.get("c", []) if isinstance(c, dict)]) == 1:
        e = strip([c for c in e["c"] if isinstance(c, dict)][0])
    if e.get("k") in ("CXXConstructExpr", "CXXFunctionalCastExpr") and len([c for c in e.get("c", []) if isinstance(c, dict)]) == 1 and _is_string(e.get("t")):
        return _peel([c for c in e["c"] if isinstance(c, dict)][0])
    return e


class Tracer:
    def __init__(self, fn):
        self.fn = fn
        self.strings = {}      # did of a tracked std::string local -> trace of its current value

    # ---- values ---------------------------------------------------------------------------------
    def value(self, e):
        """trace of the text a string-valued expression denotes"""
        e = _peel(e)
        k = e.get("k")
        if k == "DeclRefExpr" and (e.get("ref") or {}).get("did") in self.strings:
            return list(self.strings[e["ref"]["did"]])
        if k == "CXXOperatorCallExpr" and e.get("op") == "+" and len(e.get("c", [])) == 3:
            return self.value(e["c"][1]) + self.value(e["c"][2])
        if k == "CallExpr" and e.get("callee", "").startswith("std::operator+") and len(call_args(e)) == 2:
            a = call_args(e)
            return self.value(a[0]) + self.value(a[1])
        return [("item", e)]

    # ---- statements -----------------------------------------------------------------------------
    def chain(self, e):
        """operands of a << chain whose root is a stream, or None"""
        e = _peel(e)
        if e.get("k") == "CXXOperatorCallExpr" and e.get("op") == "<<" and len(e.get("c", [])) == 3:
            left = self.chain(e["c"][1])
            if left is None:
                l0 = _peel(e["c"][1])
                if _is_stream(l0.get("t")):
                    left = []
                else:
                    return None
            return left + [e["c"][2]]
        if e.get("k") == "CallExpr" and e.get("callee", "").startswith("std::operator<<") and len(call_args(e)) == 2:
            a = call_args(e)
            left = self.chain(a[0])
            if left is None:
                if _is_stream(_peel(a[0]).get("t")):
                    left = []
                else:
                    return None
            return left + [a[1]]
        return None

    def loop_key(self, s):
        """(container text, element dids) of a loop over a whole container, or None"""
        k = s.get("k")
        if k == "CXXForRangeStmt":
            return render(s["range"]).replace("this->", ""), {s["var"].get("did")}
        if k == "ForStmt" and isinstance(s.get("cond"), dict) and isinstance(s.get("init"), dict):
            from .model import expand_text
            cond = expand_text(self.fn, s["cond"])
            decls = [d for d in (s["init"].get("decls") or []) if isinstance(d, dict)]
            if len(decls) == 1:
                import re
                m = re.search(r"<\(?([\w:.>\-]+?)\.size\(\)", cond.replace("this->", ""))
                if m and re.search(r"^\(?0", render(decls[0].get("init") or {}).replace(" ", "").replace("{", "").replace("(unsignedlong)", "")):
                    return m.group(1), {decls[0].get("did")}
                m = re.search(r"(!=|<)\(?([\w:.>\-]+?)\.c?end\(\)", cond.replace("this->", ""))
                if m and ".begin()" in render(decls[0].get("init") or {}).replace("cbegin", "begin"):
                    return m.group(2), {decls[0].get("did")}
        return None

    def run(self, stmts):
        """trace emitted to streams by the statement list"""
        out = []
        for s in stmts:
            out += self.stmt(s)
        return out

    def stmt(self, s):
        k = s.get("k")
        if k == "CompoundStmt":
            return self.run(s.get("c", []))
        if k == "DeclStmt":
            for d in s.get("decls", []):
                if isinstance(d, dict) and d.get("k") == "Var" and _is_string(d.get("t")):
                    self.strings[d["did"]] = self.value(d["init"]) if isinstance(d.get("init"), dict) else []
                elif isinstance(d, dict) and isinstance(d.get("init"), dict) and self._mentions_emission(d["init"]):
                    raise Unknown("emission inside an initialiser at line %s" % s.get("l"))
            return []
        if k in ("CXXForRangeStmt", "ForStmt"):
            key = self.loop_key(s)
            body = s.get("body") or {}
            if not self._mentions_emission(body) and not self._appends(body):
                return []
            if key is None:
                raise Unknown("loop at line %s emits but does not range over a whole container" % s.get("l"))
            before = {d: list(v) for d, v in self.strings.items()}
            inner = Tracer(self.fn)
            inner.strings = {d: list(v) for d, v in self.strings.items()}
            emitted = inner.stmt(body)
            for d in before:
                new = inner.strings.get(d, [])
                if len(new) < len(before[d]) or any(a is not b for a, b in zip(new, before[d])):
                    raise Unknown("a string built outside the loop at line %s is overwritten inside it" % s.get("l"))
                app = new[len(before[d]):]       # what one iteration appends to a string that lives outside the loop
                if app:
                    self.strings[d] = before[d] + [("loop", key[0], key[1], app)]
            return [("loop", key[0], key[1], emitted)] if emitted else []
        if k in ("IfStmt", "WhileStmt", "DoStmt", "SwitchStmt", "CXXTryStmt"):
            if self._mentions_emission(s) or self._appends(s):
                raise Unknown("conditional emission at line %s" % s.get("l"))
            return []
        e = _peel(s)
        ch = self.chain(e)
        if ch is not None:
            out = []
            for op in ch:
                out += self.value(op)
            return out
        if e.get("k") == "CXXOperatorCallExpr" and e.get("op") == "+=" and len(e.get("c", [])) == 3:
            t = _peel(e["c"][1])
            if t.get("k") == "DeclRefExpr" and (t.get("ref") or {}).get("did") in self.strings:
                self.strings[t["ref"]["did"]] = self.strings[t["ref"]["did"]] + self.value(e["c"][2])
                return []
        if e.get("k") == "CXXMemberCallExpr" and e.get("callee", "").split("::")[-1] in ("append", "push_back"):
            o = call_obj(e)
            t = _peel(o) if isinstance(o, dict) else {}
            if t.get("k") == "DeclRefExpr" and (t.get("ref") or {}).get("did") in self.strings and len(call_args(e)) == 1:
                self.strings[t["ref"]["did"]] = self.strings[t["ref"]["did"]] + self.value(call_args(e)[0])
                return []
        if e.get("k") in ("CXXOperatorCallExpr", "BinaryOperator") and e.get("op") == "=":
            t = _peel(e["c"][1] if e["k"] == "CXXOperatorCallExpr" else e["c"][0])
            if t.get("k") == "DeclRefExpr" and (t.get("ref") or {}).get("did") in self.strings:
                self.strings[t["ref"]["did"]] = self.value(e["c"][2] if e["k"] == "CXXOperatorCallExpr" else e["c"][1])
                return []
        if self._mentions_emission(s):
            raise Unknown("emission in a statement form that is not modelled at line %s" % s.get("l"))
        return []

    def _mentions_emission(self, n):
        for x in walk(n):
            if x.get("k") == "CXXOperatorCallExpr" and x.get("op") == "<<" and len(x.get("c", [])) == 3 and _is_stream(_peel(x["c"][1]).get("t")):
                return True
            if x.get("k") == "CallExpr" and x.get("callee", "").startswith("std::operator<<"):
                return True
        return False

    def _appends(self, n):
        for x in walk(n):
            if x.get("k") == "CXXOperatorCallExpr" and x.get("op") in ("+=", "=") and len(x.get("c", [])) == 3:
                t = _peel(x["c"][1])
                if t.get("k") == "DeclRefExpr" and (t.get("ref") or {}).get("did") in self.strings:
                    return True
            if x.get("k") == "CXXMemberCallExpr" and x.get("callee", "").split("::")[-1] in ("append", "push_back"):
                o = call_obj(x)
                t = _peel(o) if isinstance(o, dict) else {}
                if t.get("k") == "DeclRefExpr" and (t.get("ref") or {}).get("did") in self.strings:
                    return True
        return False


def flatten_fixed(tr):
    """(items before the first loop, loops, items after the last loop); None if items and loops interleave otherwise"""
    pre, loops, post = [], [], []
    for it in tr:
        if it[0] == "loop":
            if post:
                return None
            loops.append(it)
        elif loops:
            post.append(it[1])
        else:
            pre.append(it[1])
    return pre, loops, post
