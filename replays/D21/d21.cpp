// D21 (rest of D20): the position overload of get_neighborhood asserts a HALF-OPEN box (pos < max_), while get_3d_voxel_index and
// place_object accept the closed box (pos <= max_). When the extent is an exact multiple of the voxel size and the coordinates are
// >= 2 the absolute epsilon padding is absorbed by rounding, max_ equals the declared maximum, and a query for a point on the upper
// face of the declared box - a point that place_object has just accepted - aborts in every build that keeps assertions (the
// project's default CMake configuration does not define NDEBUG).
#include <cstdio>
#include <csignal>
#include <csetjmp>
#include "uspg_4d.hpp"
#include "uspg_3d.hpp"
static sigjmp_buf env;
static void on_abort(int){ siglongjmp(env, 1); }
int main(){
    std::signal(SIGABRT, on_abort);
    int aborted = 0;
    uspg_4d<int> g(0.,0.,0., 3.,3.,3., 1., 10);
    g.place_object(7, 3., 3., 3.);                       // accepted: the closed box
    if(sigsetjmp(env, 1) == 0){
        auto l = g.get_neighborhood(3., 3., 3.);         // the same point
        std::printf("uspg_4d: neighbourhood of the max corner holds %ld object(s)\n", (long) std::distance(l.begin(), l.end()));
    } else { aborted++; std::printf("uspg_4d: get_neighborhood(3,3,3) ABORTED (assertion) on a point place_object accepted\n"); }
    uspg_3d<int> h(0.,0.,0., 3.,3.,3., 1., 10);
    if(sigsetjmp(env, 1) == 0){
        auto l = h.get_neighborhood(3., 3., 3.);
        std::printf("uspg_3d: neighbourhood query of the max corner returned %ld object(s)\n", (long) std::distance(l.begin(), l.end()));
    } else { aborted++; std::printf("uspg_3d: get_neighborhood(3,3,3) ABORTED (assertion)\n"); }
    std::printf(aborted ? "D21 REPRODUCED\n" : "D21 not reproduced\n");
    return aborted ? 1 : 0;
}
