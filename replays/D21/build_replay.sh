#!/bin/bash
# usage: build_replay.sh [repo root]   (builds - WITH assertions, as the default CMake configuration does - and runs the D21 driver)
R=${1:-/repo}
INC=$(find $R/include -type d | sed 's/^/-I/' | tr '\n' ' ')
T=$(mktemp -d); g++ -std=gnu++17 -fopenmp -g $INC $(dirname $0)/d21.cpp $R/src/math_modules/vec3.cpp -o $T/d21 && $T/d21 2>&1 | grep -v "Assertion"; rc=${PIPESTATUS[0]}; rm -rf $T; exit $rc
