// D10 replay, second half of the claim: a node created by the remesher (local_mesh_refiner::split_edge) is read by
// the contact model before cell::compute_node_curvature_and_normals() ever wrote its curvature_.
// The calls are the ones of solver::run_iteration(), in the same order; one warm-up call to apply_internal_forces()
// initialises the curvature of every node that exists before the remeshing, so that whatever valgrind reports
// afterwards can only come from nodes created by the remesher.
//   driver_d10 <parameter xml>
#include <iostream>
#include "simulation_initializer.hpp"
#include "local_mesh_refiner.hpp"
#include "contact_node_node_via_coupling.hpp"

int main(int argc, char** argv){
    if(argc != 2){std::cout << "usage: driver_d10 <parameter xml>" << std::endl; return 2;}
    simulation_initializer sim_init(argv[1]);
    global_simulation_parameters sim_parameters = sim_init.get_simulation_parameters();
    std::vector<cell_ptr> cell_lst = sim_init.get_cell_lst();
    for(size_t i = 0; i < cell_lst.size(); i++){cell_lst[i]->set_id(i); cell_lst[i]->set_local_id(i);} //as in solver::solver

    //(end of a previous iteration) every existing node gets its curvature
    for(cell_ptr c: cell_lst) c->apply_internal_forces(sim_parameters.time_step_);
    size_t nb_nodes_before = 0; for(cell_ptr c: cell_lst) nb_nodes_before += c->get_node_lst().size();

    //(next iteration) solver::run_iteration(): update_face_types, refine_meshes, contact model
    for(cell_ptr c: cell_lst) c->update_face_types();
    //the cells were triangulated with min_edge_length of the xml; a refiner with a smaller window [0.5, 1.5] x min_edge_length
    //makes the long edges split, the same thing that growth does in a long run
    local_mesh_refiner lmr(0.5 * sim_parameters.min_edge_len_, 1.5 * sim_parameters.min_edge_len_, sim_parameters.enable_edge_swap_operation_);
    lmr.refine_meshes(cell_lst);
    size_t nb_nodes_after = 0; for(cell_ptr c: cell_lst) nb_nodes_after += c->get_node_lst().size();
    std::cout << "remeshing: " << nb_nodes_before << " -> " << nb_nodes_after << " node slots" << std::endl;

    std::cout << "running the contact model" << std::endl;
    contact_node_node_via_coupling contact_model(sim_parameters);
    contact_model.run(cell_lst);
    std::cout << "done" << std::endl;
    return 0;
}
