#!/bin/bash
# usage: build_replay.sh [repo root]   (builds and runs the D20 driver against the sources of the given tree)
R=${1:-/repo}
INC=$(find $R/include -type d | sed 's/^/-I/' | tr '\n' ' ')
T=$(mktemp -d); g++ -std=gnu++17 -fopenmp -DNDEBUG -fsanitize=address -g $INC $(dirname $0)/d20.cpp $R/src/math_modules/vec3.cpp -o $T/d20 && ASAN_OPTIONS=detect_leaks=0 $T/d20; rc=$?; rm -rf $T; exit $rc
