// D20: uspg update_dimensions sizes an axis with ceil((max+eps-min)/s) while get_3d_voxel_index quantises with floor((p-(min-eps))/s):
// whenever the extent is an exact multiple of the voxel size the max face of the declared box maps to voxel index nb_voxels (one past the end).
#include <cstdio>
#include "uspg_4d.hpp"
#include "uspg_3d.hpp"
int main(){
    int bad = 0;
    {   // the declared box [0,4]^3, voxel size 2: 2 voxels per axis
        uspg_4d<int> g(0.,0.,0., 4.,4.,4., 2., 10);
        auto nb = g.get_nb_voxels();
        // NDEBUG build: the asserts of get_3d_voxel_index are off, as in the Release build of the product
        auto idx = g.get_3d_voxel_index(4.,4.,4.);
        std::printf("uspg_4d box [0,4]^3 size 2: nb_voxels=(%u,%u,%u) index of the max corner=(%u,%u,%u)\n", nb[0],nb[1],nb[2], idx[0],idx[1],idx[2]);
        if(idx[0] >= nb[0] || idx[1] >= nb[1] || idx[2] >= nb[2]) bad++;
        // in real arithmetic too: extent + eps an exact multiple (coordinates of magnitude < 1 so that eps is not absorbed)
        const double e = std::numeric_limits<double>::epsilon();
        uspg_4d<int> h(0.,0.,0., 0.5-e,0.5-e,0.5-e, 0.25, 10);
        auto nb2 = h.get_nb_voxels(); auto idx2 = h.get_3d_voxel_index(0.5-e,0.5-e,0.5-e);
        std::printf("uspg_4d box [0,0.5-eps]^3 size 0.25: nb_voxels=(%u,..) index of the max corner=(%u,..)\n", nb2[0], idx2[0]);
        if(idx2[0] >= nb2[0]) bad++;
        std::printf(bad ? "D20 REPRODUCED\n" : "D20 not reproduced\n"); std::fflush(stdout);
        if(bad){ uspg_4d<int> big(0.,0.,0., 64.,64.,64., 2., 10); big.place_object(7, 64.,64.,64.); }  // heap-buffer-overflow under ASan (slot 33824 of 32768)
    }
    
    return bad ? 1 : 0;
}
