// D9 replay: polymorphic bases without virtual destructor, owned through std::unique_ptr<Base>
// (exactly the ownership pattern of include/solver.hpp / src/solver.cpp).
//   driver_d9 csv | string | contact
#include <iostream>
#include <memory>
#include <string>
#include <type_traits>
#include "custom_structures.hpp"
#include "statistics_writer.hpp"
#include "contact_model_abstract.hpp"
#if CONTACT_MODEL_INDEX == 0
    #include "contact_node_face_via_spring.hpp"
    typedef contact_node_face_via_spring derived_contact_model;
#elif CONTACT_MODEL_INDEX == 1
    #include "contact_node_node_via_coupling.hpp"
    typedef contact_node_node_via_coupling derived_contact_model;
#else
    #include "contact_face_face_via_coupling.hpp"
    typedef contact_face_face_via_coupling derived_contact_model;
#endif

int main(int argc, char** argv){
    const std::string what = argc > 1 ? argv[1] : "";
    std::cout << "CONTACT_MODEL_INDEX " << CONTACT_MODEL_INDEX << std::endl;
    std::cout << "has_virtual_destructor: abstract_statistics_writer " << std::has_virtual_destructor<abstract_statistics_writer>::value
              << ", contact_model_abstract " << std::has_virtual_destructor<contact_model_abstract>::value << std::endl;
    std::cout << "sizeof: abstract_statistics_writer " << sizeof(abstract_statistics_writer) << ", csv_file_statistics_writer " << sizeof(csv_file_statistics_writer)
              << ", string_statistics_writer " << sizeof(string_statistics_writer) << " | contact_model_abstract " << sizeof(contact_model_abstract)
              << ", derived contact model " << sizeof(derived_contact_model) << std::endl;

    if(what == "csv"){
        //same statement as src/solver.cpp:68, same kind of path (output_folder + "/simulation_statistics.csv")
        std::unique_ptr<abstract_statistics_writer> p = std::make_unique<csv_file_statistics_writer>("/tmp/replay_a/replay/D9/simulation_statistics.csv");
        p.reset();
    }
    else if(what == "string"){
        //same statement as src/solver.cpp:65
        std::unique_ptr<abstract_statistics_writer> p = std::make_unique<string_statistics_writer>();
        p.reset();
    }
    else if(what == "contact"){
        global_simulation_parameters sim_parameters;
        sim_parameters.output_folder_path_ = "/tmp/replay_a/replay/D9/out";
        sim_parameters.damping_coefficient_ = 1.; sim_parameters.simulation_duration_ = 1.; sim_parameters.sampling_period_ = 1.; sim_parameters.time_step_ = 1e-7;
        sim_parameters.min_edge_len_ = 7.5e-7; sim_parameters.contact_cutoff_adhesion_ = 2.5e-7; sim_parameters.contact_cutoff_repulsion_ = 2.5e-7;
        //same statement as src/solver.cpp:55-59
        std::unique_ptr<contact_model_abstract> q = std::make_unique<derived_contact_model>(sim_parameters);
        q.reset();
    }
    else{ std::cout << "usage: driver_d9 csv|string|contact" << std::endl; return 2; }
    std::cout << "done: " << what << std::endl;
    return 0;
}
