// D5 replay driver: real simulation_initializer + real solver::run_iteration on 3 adhering cells
// (data/input_meshes/cell_triplet.vtk); the first cell has a cell type whose min_vol is above its volume,
// so solver::run_iteration removes it at the end of iteration 0.
// After every iteration we print, for every cell: index in cell_lst, persistent id, local id, and the
// histogram of the "coupled cell local id" stored in its nodes by the contact model.
#include <iostream>
#include <map>
#include "simulation_initializer.hpp"
#include "solver.hpp"

struct probe_solver : public solver {
    using solver::solver;
    void dump(const char* when) const {
        std::cout << "---- " << when << ": cell_lst_.size() = " << cell_lst_.size() << std::endl;
        for(size_t i = 0; i < cell_lst_.size(); i++){
            const cell_ptr& c = cell_lst_[i];
            std::map<unsigned, unsigned> hist; unsigned oob = 0, self = 0;
            for(const node& n : c->get_node_lst()){
                if(n.is_used() && n.is_coupled()){
                    const auto [c2, n2] = n.get_coupled_node();
                    hist[c2]++;
                    if(c2 >= cell_lst_.size()) oob++;
                    else if(cell_lst_[c2].get() == c.get()) self++;
                }
            }
            std::cout << "  index " << i << ": id=" << c->get_id() << " local_id=" << c->get_local_id()
                      << (c->get_local_id() != i ? "  <-- local_id != index" : "") << " | coupled nodes per target local id:";
            for(auto [k, v] : hist) std::cout << " [" << k << "]=" << v;
            std::cout << " | targets >= cell_lst_.size(): " << oob << ", targets resolving to the cell itself: " << self << std::endl;
        }
    }
};

int main(int argc, char** argv){
    const int nb_iter = (argc > 2) ? std::atoi(argv[2]) : 3;
    try{
        simulation_initializer sim_init(argv[1], /*verbose*/ false);
        probe_solver s(sim_init.get_simulation_parameters(), sim_init.get_cell_lst(), /*nb_threads*/ 4, /*stats in string*/ true, /*verbose*/ true);
        s.dump("before iteration 0");
        for(int it = 0; it < nb_iter; it++){
            s.run_iteration();
            s.dump(("after iteration " + std::to_string(it)).c_str());
        }
    }
    catch(std::exception const& e){ std::cerr << "EXCEPTION: " << e.what() << std::endl; return 1; }
    std::cout << "driver finished normally" << std::endl;
    return 0;
}
