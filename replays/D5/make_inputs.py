#!/usr/bin/env python3
# Builds the D5 inputs from unmodified project files:
#  - params_D5.xml : parameters_default_dynamic.xml with only 2 cell types, both epithelial (global id 0);
#                    the second one ("doomed") has min_vol = 1 [L^3] i.e. far above any cell volume
#  - triplet_D5.vtk: data/input_meshes/cell_triplet.vtk (3 adhering cells) with cell_type_id "1 0 0"
#                    => cell 0 is removed at the end of iteration 0.
import re, os
root = "/tmp/replay_b"
here = os.path.dirname(os.path.abspath(__file__))
x = open(root + "/parameters_default_dynamic.xml").read()
head, rest = x.split("<cell_types>", 1)
first = rest.split("</cell_type>", 1)[0] + "</cell_type>\n"
doomed = first.replace("<cell_type_name>epithelial</cell_type_name>", "<cell_type_name>doomed</cell_type_name>")
doomed = re.sub(r"<min_vol>[^<]*</min_vol>", "<min_vol>1.0</min_vol>", doomed)
head = re.sub(r"<input_mesh_file_path>[^<]*<", "<input_mesh_file_path>%s/triplet_D5.vtk<" % here, head)
head = re.sub(r"<output_mesh_folder_path>[^<]*<", "<output_mesh_folder_path>%s/out<" % here, head)
head = re.sub(r"<perform_initial_triangulation>[^<]*<", "<perform_initial_triangulation>0<", head)
head = re.sub(r"<simulation_duration>[^<]*<", "<simulation_duration>3e-5<", head)   # 300 iterations
# no divisions: keeps the replay deterministic (division volumes are drawn at random)
first  = re.sub(r"<avg_division_volume>[^<]*<", "<avg_division_volume>INF<", first)
doomed = re.sub(r"<avg_division_volume>[^<]*<", "<avg_division_volume>INF<", doomed)
open(here + "/params_D5.xml", "w").write(head + "<cell_types>" + first + doomed + "</cell_types>\n")
m = open(root + "/data/input_meshes/cell_triplet.vtk").read()
m2 = m.replace("cell_type_id 1 3 int\n0 0 0", "cell_type_id 1 3 int\n1 0 0")
assert m != m2
open(here + "/triplet_D5.vtk", "w").write(m2)
