#!/bin/bash
# usage: build_lib.sh <cfg-name> <compiler> <flags...>
# Compiles every project source of the worktree (except python bindings and main.cpp)
# plus tinyxml2 into /tmp/replay_a/build_<cfg>/libsc3d.a
set -e
ROOT=/tmp/replay_a
CFG=$1; shift
CXX=$1; shift
FLAGS="$*"
B=$ROOT/build_$CFG
mkdir -p $B
INC=$(bash $ROOT/replay/inc.sh)
SRCS=$(find $ROOT/src -name '*.cpp' ! -path '*python_bindings*'; echo $ROOT/lib/tinyxml2/tinyxml2.cpp)
for s in $SRCS; do
  o=$B/$(echo ${s#$ROOT/} | tr '/' '_' | sed 's/\.cpp$/.o/')
  echo "$CXX -std=gnu++17 -fopenmp $FLAGS -include $ROOT/replay/psd.h $INC -c $s -o $o"
done | xargs -P 8 -I{} bash -c "{}"
rm -f $B/libsc3d.a
ar rcs $B/libsc3d.a $B/*.o
echo built $B/libsc3d.a
