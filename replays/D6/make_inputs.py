#!/usr/bin/env python3
# D6 inputs: parameters_default_dynamic.xml reduced to ONE cell type (epithelial) that declares ONE face type only (apical),
# input mesh = the 2 adhering cells of test/.../test_cell_separation/cell_doublet.vtk (unmodified, referenced in place)
import re, os
root = "/tmp/replay_b"
here = os.path.dirname(os.path.abspath(__file__))
x = open(root + "/parameters_default_dynamic.xml").read()
head, rest = x.split("<cell_types>", 1)
first = rest.split("</cell_type>", 1)[0] + "</cell_type>\n"
# keep only the first <face_type> ... </face_type> block
pre, ft = first.split("<face_types>", 1)
ft_first = ft.split("</face_type>", 1)[0] + "</face_type>\n"
first = pre + "<face_types>" + ft_first + "        </face_types>\n    </cell_type>\n"
first = re.sub(r"<avg_division_volume>[^<]*<", "<avg_division_volume>INF<", first)
head = re.sub(r"<input_mesh_file_path>[^<]*<", "<input_mesh_file_path>%s/test/test_contact_models/test_contact_node_node_via_coupling/test_cell_separation/cell_doublet.vtk<" % root, head)
head = re.sub(r"<output_mesh_folder_path>[^<]*<", "<output_mesh_folder_path>%s/out<" % here, head)
head = re.sub(r"<perform_initial_triangulation>[^<]*<", "<perform_initial_triangulation>0<", head)
head = re.sub(r"<simulation_duration>[^<]*<", "<simulation_duration>5e-7<", head)   # 5 iterations
open(here + "/params_D6.xml", "w").write(head + "<cell_types>" + first + "</cell_types>\n")
