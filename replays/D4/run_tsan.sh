#!/bin/bash
# usage: run_tsan.sh <driver binary> <nb runs>   (prints a per-run summary and the full report of the first run that has one)
BIN=$1; N=${2:-10}
export KMP_LOCK_KIND=tas            # libomp default (queuing) locks abort on node's copied omp_lock_t, see CMD.txt
export TSAN_OPTIONS="ignore_noninstrumented_modules=1 history_size=7"
export OMP_NUM_THREADS=8
first=""
for i in $(seq 1 $N); do
  $BIN 12 0 > /tmp/replay_a/build_tsan/run_$i.txt 2>&1; rc=$?
  w=$(grep -c 'WARNING: ThreadSanitizer' /tmp/replay_a/build_tsan/run_$i.txt)
  echo "run $i: exit=$rc ThreadSanitizer warnings=$w | $(grep 'cell_divider::run returned' /tmp/replay_a/build_tsan/run_$i.txt)"
  if [ -z "$first" ] && [ "$w" != "0" ]; then first=$i; fi
done
echo
echo "lines of the reports that point into cell_divider.cpp (all runs):"
cat /tmp/replay_a/build_tsan/run_*.txt | grep -o "src/triangulation_modules/cell_divider.cpp:[0-9]*" | sort | uniq -c
echo
if [ -n "$first" ]; then echo "===== full output of run $first ====="; cat /tmp/replay_a/build_tsan/run_$first.txt; else echo "no ThreadSanitizer report in any run; output of run 1:"; cat /tmp/replay_a/build_tsan/run_1.txt; fi
