#ifndef DEF_CONTACT_NODE_NODE_VIA_COUPLING
#define DEF_CONTACT_NODE_NODE_VIA_COUPLING


#include "global_configuration.hpp"



#define _USE_MATH_DEFINES

#include "contact_model_abstract.hpp"
#include <math.h>


class contact_node_node_via_coupling: public contact_model_abstract{

    private:
        static inline const double max_dot_product_adhesion_  = std::cos(45 * M_PI / 180.0); 
        static inline const double max_dot_product_repulsion_ = std::cos(90 * M_PI / 180.0); 


    public:
        contact_node_node_via_coupling() = default;                                          //default constructor
        contact_node_node_via_coupling(const contact_node_node_via_coupling& v) = delete;           //copy constructor
        contact_node_node_via_coupling(contact_node_node_via_coupling&& v) = delete;                //move constructor
        contact_node_node_via_coupling& operator=(const contact_node_node_via_coupling& v) = delete;//copy assignment operator
        contact_node_node_via_coupling& operator=(contact_node_node_via_coupling&& v) = default;     //move assignment operator 

        //The trivial constructor of the contact model
        contact_node_node_via_coupling(const global_simulation_parameters& sim_parameters) noexcept(false);
            
        void run(const std::vector<cell_ptr>& cell_lst) noexcept override;

        //Find the faces that are within a distance below the contact cutoff and apply adhesive or repulsive forces 
        void resolve_all_contacts(const std::vector<cell_ptr>& cell_lst) noexcept;


        //Prevent the surfaces of the cells to interpenetrate by applying repulsive forces on the surfaces.
        //These forces are only applied if the 2 cells are not epithelial
        void resolve_contact(cell_ptr c1, cell_ptr c2, node& n, face* f) const noexcept;


};
#endif
