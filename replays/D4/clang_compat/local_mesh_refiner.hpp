#ifndef DEF_local_mesh_refiner
#define DEF_local_mesh_refiner

#define _USE_MATH_DEFINES


#include <cassert>
#include <cmath>  
#include <set>  


#include "utils.hpp"


#include "custom_exception.hpp"
#include "custom_structures.hpp"

#include "mesh_writer.hpp"
#include "cell.hpp"
#include "face.hpp"
#include "edge.hpp"



/*
    This class makes sure that all the edges of the cell meshes have lengths comprised in the range [l_min, l_max]. 
    When an edge is too long, it is subdivided into two edges. When an edge is too short, it is merged with into one node.
    Triangles with very high isoperimetric ratio are also subdivided into two triangles.
*/

class local_mesh_refiner
{

    private:

        //The minimum and maximum authorized edge lengths
        const double l_min_, l_max_, l_min_squared_, l_max_squared_;

        //If set to true, the local mesh refiner will remove the triangles with high aspect ratio
        //by swapping their longest edge
        const bool enable_edge_swap_operation_;

        //The isoperimetric ratio of an equliateral triangle, which
        //is the smmallest possible isoperimetric ratio
        static inline const double q_min_ = 36. / std::sqrt(3.);

        //The minimum allowed triangle score, below that, the edge swap operation is triggered
        static constexpr double triangle_score_min_ = 0.2;

        //Wrap the call to the local_mesh_refiner::refine_mesh() method into a lambda function
        const std::function<void(cell_ptr)> refine_mesh_func_ = [=](cell_ptr c) -> void {refine_mesh(c);};

        friend class local_mesh_refiner_tester;


    public:
        //Make sure the local_mesh_refiner cannot be default instantiated
        local_mesh_refiner() = default;                                     //default constructor
        local_mesh_refiner(const local_mesh_refiner& c) = delete;           //copy constructor
        local_mesh_refiner(local_mesh_refiner&& c) = delete;                //move constructor
        local_mesh_refiner& operator=(const local_mesh_refiner& c) = default;//copy assignment operator
        local_mesh_refiner& operator=(local_mesh_refiner&& c) = default;     //move assignment operator 

        double get_l_min() const noexcept {return l_min_;};
        double get_l_max() const noexcept {return l_max_;};

        double get_l_min_squared() const noexcept {return l_min_squared_;};
        double get_l_max_squared() const noexcept {return l_max_squared_;};

        //Trivial constructor
        local_mesh_refiner(const double l_min, const double l_max, const bool enable_edge_swap_operation = true) noexcept;

        //Refine the meshes of all the cells in the vector
        void refine_meshes(const std::vector<cell_ptr> cell_lst) const noexcept(false);

        //Refine the mesh of a given cell
        void refine_mesh(cell_ptr c) const noexcept(false);

        //Remove all the elongated triangles
        void remove_elongated_triangles(cell_ptr c) const noexcept(false);

        //Return the triangle score and also the longest edge of the triangle
        std::pair<double, edge> get_triangle_score(cell_ptr c, const face& f) const noexcept;

        //Check if an edge can be merged into a node
        bool can_be_merged(edge& e_ab, cell_ptr c) const noexcept(false);
 
        void swap_edge(edge& e_ab, cell_ptr c) const noexcept(false);

        void split_edge(edge& e_ab, cell_ptr c, edge_set& edge_to_check_set) const noexcept(false);

        void merge_edge(edge& e_ab, cell_ptr c, edge_set& edge_to_check_set) const noexcept(false);


        




};

#endif