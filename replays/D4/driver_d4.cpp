// D4 replay: cell_divider::run pushes the daughters into cell_lst (inside omp critical) while
// the other threads index cell_lst[i] OUTSIDE the critical section (lines 25, 28, 31 of cell_divider.cpp).
//
// usage: driver_d4 <nb_ready> <nb_pad>
//   cell_lst = [ nb_ready epithelial cells that are ready to divide ][ nb_pad entries that are NOT ready ]
//   * nb_pad == 0 : the "natural" scenario (all cells ready). The race is there but the window is a few ns,
//                   a dynamic tool that needs the bad interleaving to really happen (ASan) almost never sees it.
//   * nb_pad >> 0 : window amplification, only through the INPUT (library code untouched): the pad entries all
//                   point to one and the same never-dividing cell, so the other threads spend their time
//                   executing `cell_lst[i]->is_ready_to_divide()` while thread 0 divides cell 0 and then
//                   push_back()s -> reallocation of a very large vector (slow) under the readers' feet.
#include <iostream>
#include <vector>
#include <chrono>
#include <omp.h>
#include "mesh_reader.hpp"
#include "custom_structures.hpp"
#include "cell_divider.hpp"
#include "local_mesh_refiner.hpp"
#include "epithelial_cell.hpp"

int main(int argc, char** argv){
    const unsigned nb_ready = (argc > 1) ? std::atoi(argv[1]) : 16;
    const size_t   nb_pad   = (argc > 2) ? std::atoll(argv[2]) : 0;

    //An already triangulated sphere shipped with the project
    mesh_reader reader(std::string(PROJECT_SOURCE_DIR) + "/data/input_meshes/sphere.vtk");
    std::vector<mesh> mesh_lst = reader.read();
    if(mesh_lst.size() != 1){std::cout << "bad input" << std::endl; return 2;}
    // stretch the sphere along x so that the division axis (longest axis) is well defined
    for(size_t k = 0; k < mesh_lst[0].node_pos_lst.size(); k += 3) mesh_lst[0].node_pos_lst[k] *= 1.3;

    face_type_parameters fp; fp.name_ = "apical"; fp.face_type_global_id_ = 0; fp.surface_tension_ = 0.1; fp.adherence_strength_ = 1.; fp.repulsion_strength_ = 1.;

    auto ready_type = std::make_shared<cell_type_parameters>();
    ready_type->name_ = "epithelial";
    ready_type->avg_division_vol_ = 1e-20; // far below the volume of the cell (~1.5e-16): every such cell is ready to divide
    ready_type->std_division_vol_ = 0.;
    ready_type->face_types_ = {fp, fp, fp};

    auto quiet_type = std::make_shared<cell_type_parameters>(*ready_type);
    quiet_type->avg_division_vol_ = 1.;    // never reached

    //Same edge length window as the solver uses: [l_min, 3 l_min]. Input edges are in [1.8e-7, 5.6e-7], the
    //refiner coarsens the mesh to ~380 nodes which makes one division fast
    const double l_min = 4e-7;
    local_mesh_refiner lmr(l_min, 3. * l_min, true);

    std::vector<cell_ptr> cell_lst;
    for(unsigned i = 0; i < nb_ready; i++){
        cell_ptr c = std::make_shared<epithelial_cell>(mesh_lst[0], i, ready_type);
        c->initialize_cell_properties();
        lmr.refine_mesh(c);
        c->rebase();
        c->update_all_face_normals_and_areas();
        c->set_local_id(i);
        cell_lst.push_back(c);
    }
    if(nb_pad > 0){
        cell_ptr quiet = std::make_shared<epithelial_cell>(mesh_lst[0], nb_ready, quiet_type);
        quiet->initialize_cell_properties();
        cell_lst.reserve(nb_ready + nb_pad);
        for(size_t k = 0; k < nb_pad; k++) cell_lst.push_back(quiet);
    }
    cell_lst.shrink_to_fit(); // capacity == size, which is what solver::cell_lst_ (copy-constructed vector) has
    std::cout << "cell_lst: size " << cell_lst.size() << " capacity " << cell_lst.capacity()
              << " | cell 0: nodes " << cell_lst[0]->get_node_lst().size() << " volume " << cell_lst[0]->get_volume()
              << " division volume " << cell_lst[0]->get_division_volume() << " ready " << cell_lst[0]->is_ready_to_divide()
              << " | last cell ready " << cell_lst.back()->is_ready_to_divide()
              << " | threads " << omp_get_max_threads() << std::endl;

    unsigned max_cell_id = nb_ready + 1;
    const size_t expected = cell_lst.size() + nb_ready;
    auto t0 = std::chrono::steady_clock::now();
    cell_divider::run(cell_lst, l_min, lmr, max_cell_id, false);
    auto t1 = std::chrono::steady_clock::now();

    std::cout << "cell_divider::run returned after " << std::chrono::duration<double>(t1 - t0).count() << " s, cell_lst size "
              << cell_lst.size() << " (expected " << expected << " if every division succeeded)" << std::endl;
    return 0;
}
