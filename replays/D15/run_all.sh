#!/bin/bash
cd /tmp/replay_b/replay/D15
for k in ok neg_curvature neg_isoperim; do
  rm -rf out_$k
  echo "\$ build_rel/simucell3d params_$k.xml"
  OMP_NUM_THREADS=4 /tmp/replay_b/build_rel/simucell3d /tmp/replay_b/replay/D15/params_$k.xml 2>&1 | grep -v "^Triangulating\|^The output folder" | tail -2
  echo "exit status: ${PIPESTATUS[0]}"
  [ -f out_$k/face_data/result_3.vtk ] && python3 count_face_types.py out_$k/face_data/result_3.vtk
  echo
done
