#!/usr/bin/env python3
# counts the values of the face_type_id array of a face_data/result_N.vtk written by the simulator (0 apical, 1 lateral = face coupled to the neighbouring cell)
import sys, re, collections
t = open(sys.argv[1]).read()
m = re.search(r"face_type_id 1 (\d+) \w+\n", t)
vals = t[m.end():].split()[:int(m.group(1))]
print(sys.argv[1], dict(sorted(collections.Counter(vals).items())))
