#!/usr/bin/env python3
# D15 inputs: parameters_default_dynamic.xml (first cell type only would not matter: all cell types are kept), mesh = the 2 adhering cells of
# test/.../cell_doublet.vtk, 3 iterations. Variants:
#   ok            : unchanged values
#   neg_curvature : <surface_coupling_max_curvature>-2.5e6 for the epithelial cell type
#   neg_isoperim  : <target_isoperimetric_ratio>-250 for the epithelial cell type (the neighbouring, validated, parameter)
import re, os
root = "/tmp/replay_b"; here = os.path.dirname(os.path.abspath(__file__))
x = open(root + "/parameters_default_dynamic.xml").read()
x = re.sub(r"<input_mesh_file_path>[^<]*<", "<input_mesh_file_path>%s/test/test_contact_models/test_contact_node_node_via_coupling/test_cell_separation/cell_doublet.vtk<" % root, x)
x = re.sub(r"<perform_initial_triangulation>[^<]*<", "<perform_initial_triangulation>0<", x)
x = re.sub(r"<simulation_duration>[^<]*<", "<simulation_duration>3e-7<", x)
x = re.sub(r"<sampling_period>[^<]*<", "<sampling_period>1e-7<", x)
x = re.sub(r"<avg_division_volume>1.4e-14<", "<avg_division_volume>INF<", x)
v = {"ok": x,
     "neg_curvature": x.replace("<surface_coupling_max_curvature>2.5e6<", "<surface_coupling_max_curvature>-2.5e6<", 1),
     "neg_isoperim":  x.replace("<target_isoperimetric_ratio>250<", "<target_isoperimetric_ratio>-250<", 1)}
for k, y in v.items():
    assert k == "ok" or y != x
    y = re.sub(r"<output_mesh_folder_path>[^<]*<", "<output_mesh_folder_path>%s/out_%s<" % (here, k), y)
    open("%s/params_%s.xml" % (here, k), "w").write(y)
