#!/bin/bash
# Rebuilds the cmake build dirs of the worktree (default flags = build_rel, ASan simulator = build_asan) and runs the 126 tests
R=/tmp/replay_b
cmake --build $R/build_rel -j16 > $R/replay/last_build_rel.log 2>&1 || { echo "build_rel FAILED"; tail -20 $R/replay/last_build_rel.log; }
cmake --build $R/build_asan -j16 --target simucell3d > $R/replay/last_build_asan.log 2>&1 || { echo "build_asan FAILED"; tail -20 $R/replay/last_build_asan.log; }
ctest --test-dir $R/build_rel -j8 2>&1 | tail -4
