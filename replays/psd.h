#define PROJECT_SOURCE_DIR "/tmp/replay_a"
