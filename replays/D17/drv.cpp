// D17 replay: with CONTACT_MODEL_INDEX 2 and DYNAMIC_MODEL_INDEX 0 the integrator advances the position with the
// momentum of BEFORE the step's momentum update (forward Euler), whereas contact models 0 and 1 (and the documentation:
// "semi-implicit Euler": p += (F - gamma p/m) dt, then x += p dt/m) use the updated momentum.
#include "time_integration.hpp"
#include "cell.hpp"
#include "custom_structures.hpp"
#include <cstdio>
int main(){
    // a tetrahedron
    std::vector<double> pos{0,0,0, 1,0,0, 0,1,0, 0,0,1};
    std::vector<unsigned> faces{0,2,1, 0,1,3, 1,2,3, 0,3,2};
    auto ct = std::make_shared<cell_type_parameters>();
    ct->mass_density_ = 1.0; ct->global_type_id_ = 0;
    face_type_parameters ft; ct->add_face_type(ft);
    cell_ptr c = std::make_shared<cell>(pos, faces, 0, ct);
    c->initialize_cell_properties(true);
    c->set_local_id(0);
    global_simulation_parameters sp; sp.time_step_ = 0.1; sp.damping_coefficient_ = 0.0;
    time_integration_scheme ti(sp, false);
    const double m = c->get_node_mass();
    const vec3 x0 = c->get_node_lst()[1].pos();
    const_cast<node&>(c->get_node_lst()[1]).add_force(vec3(1.,0.,0.));   // F = (1,0,0), p0 = 0
    ti.update_nodes_positions({c});
    const vec3 x1 = c->get_node_lst()[1].pos();
    std::printf("CONTACT_MODEL_INDEX=%d: dx = %.6g, semi-implicit law F*dt*dt/m = %.6g\n", CONTACT_MODEL_INDEX, x1.dx()-x0.dx(), 1.0*0.1*0.1/m);
    return 0;
}
