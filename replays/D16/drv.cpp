// D16 replay: vec3::translate is documented/annotated as atomic (#pragma omp atomic update) and is the
// only force accumulator used from the parallel contact phase; but src/math_modules is compiled
// WITHOUT -fopenmp by the project's CMake files, so the pragma is ignored.
#include "vec3.hpp"
#include <omp.h>
#include <cstdio>
int main(){
    vec3 f; 
    const int N = 2000000;
    #pragma omp parallel for num_threads(8)
    for(int i = 0; i < N; i++){ f.translate(vec3(1., 1., 1.)); }
    std::printf("expected %d got %.0f %.0f %.0f\n", N, f.dx(), f.dy(), f.dz());
    return f.dx() == N ? 0 : 1;
}
