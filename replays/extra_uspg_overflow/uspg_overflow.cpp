// Extra finding while replaying D11: uspg_4d::update_dimensions computes the number of voxels as
//   const size_t total_nb_voxels = nb_voxels_x_ * nb_voxels_y_ * nb_voxels_z_;      (3 x unsigned => 32 bit product, wraps)
// and uspg_abstract::get_voxel_index computes  voxel_z_id * nb_voxels_x_ * nb_voxels_y_ + ...  in 32 bit as well.
// A grid of 1626^3 voxels (4.30e9 > 2^32) is silently allocated with 3 975 080 voxels; placing an object then indexes out of bounds.
#include <iostream>
#include "uspg_4d.hpp"
int main(){
    uspg_4d<int> g(0., 0., 0., 1626., 1626., 1626., 1.0, 0);
    const auto [nx, ny, nz] = g.get_nb_voxels();
    std::cout << "nb voxels per axis: " << nx << " x " << ny << " x " << nz << " = " << (size_t)nx*ny*nz << " expected" << std::endl;
    std::cout << "voxel index of (100.5, 100.5, 100.5): " << g.get_voxel_index(100.5, 100.5, 100.5) << "  (64 bit value would be " << (size_t)100*nx*ny + (size_t)100*nx + 100 << ")" << std::endl;
    std::cout << "placing an object at (100.5, 100.5, 100.5) ..." << std::endl;
    g.place_object(1, 100.5, 100.5, 100.5);
    std::cout << "done" << std::endl;
    return 0;
}
