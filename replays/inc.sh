#!/bin/bash
ROOT=/tmp/replay_a
for d in include include/mesh include/mesh/cell_types include/math_modules include/io include/uspg include/triangulation_modules include/time_integration include/contact_models include/automatic_polarization lib/tinyxml2 lib/delaunator/include; do printf -- "-I%s/%s " $ROOT $d; done
