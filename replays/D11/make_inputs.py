#!/usr/bin/env python3
# D11 inputs: a thin closed box ("needle", 1.5 x 1.5 x 2500) lying along the (1,1,1) diagonal.
# Small surface (cheap uniform sampling: ~5e6 points) but huge axis-aligned bounding box:
# with l_min = 1 the uspg_4d grid of poisson_sampling::compute_poisson_point_cloud needs ~1443^3 = 3e9 voxels (24 GB) -> std::bad_alloc under ulimit -v
import math, os, re
here = os.path.dirname(os.path.abspath(__file__))
root = "/tmp/replay_b"
t, L = 1.5, 2500.0
d = [1/math.sqrt(3)]*3
u = [1/math.sqrt(2), -1/math.sqrt(2), 0.0]
v = [d[1]*u[2]-d[2]*u[1], d[2]*u[0]-d[0]*u[2], d[0]*u[1]-d[1]*u[0]]
def P(a, b, c): return [a*u[i]*t + b*v[i]*t + c*d[i]*L + 10.0 for i in range(3)]
# same vertex numbering as data/input_meshes/cube.vtk : (x,y,z) -> (a,c,b) so that the connectivity of cube.vtk can be reused
pts = [P(0,0,0), P(1,0,0), P(1,1,0), P(0,1,0), P(0,0,1), P(1,0,1), P(0,1,1), P(1,1,1)]
cube = open(root + "/data/input_meshes/cube.vtk").read()
cells = cube[cube.index("CELLS"):]
with open(here + "/needle.vtk", "w") as f:
    f.write("# vtk DataFile Version 4.2\nvtk output\nASCII\nDATASET UNSTRUCTURED_GRID\nPOINTS 8 double\n")
    for p in pts: f.write("%.9f %.9f %.9f\n" % tuple(p))
    f.write("\n" + cells)
x = open(root + "/parameters_default_dynamic.xml").read()
x = re.sub(r"<input_mesh_file_path>[^<]*<", "<input_mesh_file_path>%s/needle.vtk<" % here, x)
x = re.sub(r"<output_mesh_folder_path>[^<]*<", "<output_mesh_folder_path>%s/out<" % here, x)
x = re.sub(r"<min_edge_length>[^<]*<", "<min_edge_length>1.0<", x)
x = re.sub(r"<contact_cutoff_adhesion>[^<]*<", "<contact_cutoff_adhesion>0.5<", x)
x = re.sub(r"<contact_cutoff_repulsion>[^<]*<", "<contact_cutoff_repulsion>0.5<", x)
open(here + "/params_D11.xml", "w").write(x)
