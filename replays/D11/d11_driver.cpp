// D11 replay driver: initial_triangulation::triangulate_surface (declared noexcept(false)) on the needle mesh with l_min = 1.
// The caller protects itself exactly like simulation_initializer::triangulate_surface does (catch std::exception).
#include <iostream>
#include "mesh_reader.hpp"
#include "initial_triangulation.hpp"

int main(int argc, char** argv){
    const double l_min = (argc > 2) ? std::atof(argv[2]) : 1.0;
    try{
        mesh_reader reader(argv[1], false);
        std::vector<mesh> meshes = reader.read();
        std::cout << "calling initial_triangulation::triangulate_surface(l_min=" << l_min << ", l_max=" << 3*l_min << ", ...)" << std::endl;
        mesh m = initial_triangulation::triangulate_surface(l_min, 3. * l_min, meshes[0], 0);
        std::cout << "triangulation succeeded: " << m.get_nb_nodes() << " nodes" << std::endl;
    }
    catch(const std::exception& e){
        std::cout << "CAUGHT std::exception in the caller: " << e.what() << std::endl;
        return 1;
    }
    return 0;
}
