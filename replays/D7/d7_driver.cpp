// D7 replay driver (CONTACT_MODEL_INDEX == 2 only).
// Two adhering epithelial cells (test/.../cell_doublet.vtk). The face-face coupling model is run (1 thread, so the order in which
// the candidate contacts are visited is deterministic) on the SAME geometry in two scenarios that differ only by the persistent cell ids:
//   A: id == local id  (0,1)          - situation at the start of a simulation
//   B: id != local id  (10,11 / 0,1)  - situation after any division or removal (ids keep growing, local ids are list indices)
// The persistent id has no physical meaning, so the coupling computed for A and B must be identical.
// We also count the couplings that are not symmetric (n1 -> n2 recorded in n1, but n2's entry for that cell does not point back to n1).
#include <iostream>
#include <map>
#include <omp.h>
#include "simulation_initializer.hpp"
#include "mesh_reader.hpp"
#include "epithelial_cell.hpp"
#include "contact_face_face_via_coupling.hpp"

#if CONTACT_MODEL_INDEX != 2
#error "build this driver with CONTACT_MODEL_INDEX 2"
#endif

// node declares "friend class node_tester" for the unit tests: same idiom used here to read the protected coupling map
class node_tester{ public: static const std::map<unsigned, std::pair<unsigned,double>>& cmap(const node& n){return n.coupled_nodes_map_;} };

using coupling_dump = std::vector<std::map<unsigned, std::pair<unsigned,double>>>; //per node: coupled cell local id -> (node id, d2)

static double sx = 0., sy = 3e-7, sz = 2e-7; //shift applied to the second cell
static std::vector<coupling_dump> run_scenario(const char* name, unsigned id0, unsigned id1){
    global_simulation_parameters p;
    p.input_mesh_path_ = std::string(PROJECT_SOURCE_DIR) + "/test/test_contact_models/test_contact_node_node_via_coupling/test_cell_separation/cell_doublet.vtk";
    p.output_folder_path_ = "/tmp/replay_b/replay/D7/out";
    p.damping_coefficient_ = 2.0e-09; p.simulation_duration_ = 1e-6; p.sampling_period_ = 1e-6; p.time_step_ = 1e-7;
    p.min_edge_len_ = 7.5e-07; p.contact_cutoff_adhesion_ = 5.0e-07; p.contact_cutoff_repulsion_ = 5.0e-07;
    p.enable_edge_swap_operation_ = false; p.perform_initial_triangulation_ = false;

    face_type_parameters ft; ft.adherence_strength_ = 1e9; ft.repulsion_strength_ = 1e9; ft.surface_tension_ = 1e-3; ft.bending_modulus_ = 0;
    auto ct = std::make_shared<cell_type_parameters>();
    ct->name_ = "epithelial"; ct->global_type_id_ = 0; ct->mass_density_ = 1e3; ct->bulk_modulus_ = 1e4; ct->max_pressure_ = 1e20;
    ct->target_isoperimetric_ratio_ = 150; ct->surface_coupling_max_curvature_ = 8e5; ct->avg_division_vol_ = 1e20; ct->min_vol_ = 5e-17;
    for(int i = 0; i < 3; i++){ft.face_type_global_id_ = i; ft.name_ = "ft" + std::to_string(i); ct->add_face_type(ft);}

    // same steps as simulation_initializer::triangulate_surface (no re-triangulation), but the second cell is shifted by a fraction of the
    // adhesion cutoff: in the stored doublet the interface nodes of the 2 cells coincide exactly (it is the output of a contact-model-1 run),
    // which would hide any error in the "keep the closest partner" logic.
    mesh_reader reader(p.input_mesh_path_, false);
    std::vector<mesh> meshes = reader.read();
    for(size_t i = 0; i < meshes[1].node_pos_lst.size(); i += 3){ meshes[1].node_pos_lst[i] += sx; meshes[1].node_pos_lst[i+1] += sy; meshes[1].node_pos_lst[i+2] += sz; }
    std::vector<cell_ptr> cell_lst;
    for(size_t i = 0; i < 2; i++){ cell_ptr c = std::make_shared<epithelial_cell>(meshes[i], i, ct); c->initialize_cell_properties(); cell_lst.push_back(c); }
    cell_lst[0]->set_id(id0); cell_lst[0]->set_local_id(0);
    cell_lst[1]->set_id(id1); cell_lst[1]->set_local_id(1);
    for(cell_ptr c : cell_lst) c->compute_node_curvature_and_normals();   // done by cell::apply_internal_forces in the solver

    contact_face_face_via_coupling cm(p);
    cm.run(cell_lst);

    std::vector<coupling_dump> res;
    size_t nb_coupled[2] = {0,0};
    for(size_t ci = 0; ci < 2; ci++){
        coupling_dump d;
        for(const node& n : cell_lst[ci]->get_node_lst()){ d.push_back(node_tester::cmap(n)); if(n.is_used() && n.is_coupled()) nb_coupled[ci]++; }
        res.push_back(d);
    }

    // internal consistency of the result: couplings are created in pairs (n1 -> n2 and n2 -> n1), so they must be symmetric
    size_t asym = 0, checked = 0;
    const auto& nl0 = cell_lst[0]->get_node_lst(); const auto& nl1 = cell_lst[1]->get_node_lst();
    for(int side = 0; side < 2; side++){
        const auto& na = side ? nl1 : nl0; const auto& nb = side ? nl0 : nl1;
        for(const node& n1 : na){
            if(!n1.is_used()) continue;
            auto it = node_tester::cmap(n1).find(side ? 0 : 1);
            if(it == node_tester::cmap(n1).end()) continue;
            checked++;
            const node& n2 = nb[it->second.first];
            auto it2 = node_tester::cmap(n2).find(side ? 1 : 0);
            if(it2 == node_tester::cmap(n2).end() || it2->second.first != n1.get_local_id()) asym++;
        }
    }
    std::cout << "scenario " << name << ": ids (" << id0 << "," << id1 << ") local ids (0,1): coupled nodes cell0=" << nb_coupled[0] << " cell1=" << nb_coupled[1]
              << " | couplings checked: " << checked << ", NOT symmetric (n1->n2 but n2 does not point back to n1): " << asym << std::endl;
    return res;
}

int main(int argc, char** argv){
    omp_set_num_threads(1);
    if(argc == 4){sx = std::atof(argv[1]); sy = std::atof(argv[2]); sz = std::atof(argv[3]);}
    std::cout << "shift of cell 1: (" << sx << ", " << sy << ", " << sz << ")" << std::endl;
    auto A = run_scenario("A", 0, 1);
    auto B = run_scenario("B", 10, 11);
    size_t diff = 0, shown = 0;
    for(size_t ci = 0; ci < 2; ci++){
        for(size_t ni = 0; ni < A[ci].size(); ni++){
            if(A[ci][ni] != B[ci][ni]){
                diff++;
                if(shown++ < 5){
                    auto pr = [](const std::map<unsigned, std::pair<unsigned,double>>& m){ if(m.empty()) std::cout << "(none)"; for(auto& [c,v] : m) std::cout << "cell" << c << ":node" << v.first << " d2=" << v.second << " ";};
                    std::cout << "  cell " << ci << " node " << ni << ": A -> "; pr(A[ci][ni]); std::cout << " | B -> "; pr(B[ci][ni]); std::cout << std::endl;
                }
            }
        }
    }
    std::cout << "nodes whose coupling differs between scenario A and B: " << diff << (diff ? "   <== the result depends on the persistent cell ids" : "   (identical)") << std::endl;
    return diff ? 2 : 0;
}
