#!/bin/bash
# usage: buildlib.sh <outdir> <extra g++ flags...>
# Compiles every product source of the worktree (src/**.cpp except python bindings + tinyxml2) directly with g++
# into <outdir>/libsc3d.a ; prints the include flags to <outdir>/inc.txt
set -e
R=/tmp/replay_b
OUT=$1; shift
mkdir -p $OUT
INC="-I$R/include"
for d in $(find $R/include -mindepth 1 -type d | grep -v python_bindings); do INC="$INC -I$d"; done
INC="$INC -I$R/lib/tinyxml2 -I$R/lib/delaunator/include"
echo "$INC" > $OUT/inc.txt
echo "#define PROJECT_SOURCE_DIR \"$R\"" > $OUT/psd.h
SRCS="$(find $R/src -name '*.cpp' | grep -v python_bindings) $R/lib/tinyxml2/tinyxml2.cpp"
for s in $SRCS; do
  o=$OUT/$(echo ${s#$R/} | tr '/' '_').o
  echo "g++ -std=gnu++17 -fopenmp -include $OUT/psd.h $INC $* -c $s -o $o"
done | xargs -P 16 -I{} bash -c "{}"
rm -f $OUT/libsc3d.a
ar rcs $OUT/libsc3d.a $OUT/*.o
