#!/bin/sh
# Compile + link replay_d19.cpp with the exact flags of the project's own test_local_mesh_refiner target
# (taken from _b/compile_commands.json and `ninja -t commands`), Release: -O3 -DNDEBUG.
set -e
R=/tmp/replay_d19
B=$R/_b
/usr/bin/c++ -I$R/include -I$R/include/triangulation_modules -I$R/include/math_modules -I$R/include/mesh \
  -I$R/test/test_triangulation_modules/test_local_mesh_refiner -I$R/include/io -I"$R/include/**" -I$R/include/uspg \
  -I$R/include/time_integration -I$R/include/mesh/cell_types -I$R/lib/tinyxml2 -I$R/lib/delaunator/include \
  -I$R/include/contact_models -I$R/include/automatic_polarization \
  -O3 -DNDEBUG -std=gnu++17 -fopenmp -o $R/replay/replay_d19.o -c $R/replay/replay_d19.cpp
cd $B
/usr/bin/c++ -O3 -DNDEBUG -rdynamic $R/replay/replay_d19.o -o $R/replay/replay_d19 \
  -Wl,-rpath,$B/bin:$B/bin/triangulation_modules:$B/bin/io:$B/bin/mesh:$B/lib/tinyxml2:$B/bin/uspg:$B/bin/math_modules:$B/bin/time_integration:$B/bin/contact_models:$B/bin/automatic_polarization \
  bin/libsrc.so bin/triangulation_modules/libtriangulation_modules.so bin/io/libio.so bin/mesh/libmesh.so \
  lib/tinyxml2/libtinyxml2.so.8.0.0 bin/uspg/libuspg.so bin/math_modules/libmath_modules.so \
  bin/time_integration/libtime_integration.so bin/contact_models/libcontact_models.so \
  bin/automatic_polarization/libautomatic_polarization.so -lgomp -Wl,-Bstatic -lpthread -Wl,-Bdynamic
