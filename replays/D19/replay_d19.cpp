// Replay for hypothesis D19: local_mesh_refiner::swap_edge leaves a stale cached face normal
// after cell::check_face_winding_order flips the winding of a freshly created face, and
// local_mesh_refiner::split_edge later trusts that stale normal to choose the winding of the
// faces it creates.
//
// Stand-alone: links against the project's shared libraries, built with the project's flags.

#include <cstdio>
#include <cmath>
#include <vector>
#include <array>
#include <string>
#include <memory>
#include <algorithm>

#include "local_mesh_refiner.hpp"
#include "cell.hpp"
#include "face.hpp"
#include "edge.hpp"
#include "custom_structures.hpp"

struct mesh_state {
    unsigned nb_faces = 0;
    unsigned nb_edges = 0;
    unsigned nb_non_manifold_edges = 0;   // edges that do not have exactly 2 faces
    unsigned nb_same_dir_edges = 0;       // manifold edges traversed in the SAME direction by their 2 faces
    unsigned nb_stale_normals = 0;        // faces with dot(cached normal, winding normal) < 0
    unsigned nb_inward_windings = 0;      // faces whose winding normal points toward the cell centroid
    double   signed_volume = 0.;
    std::vector<unsigned> stale_faces;
};

class local_mesh_refiner_tester {
public:

    // 8-node / 12-face closed prism of the project's own edge_swap_test. half_width is |x| of nodes C,D,G,H.
    static cell_ptr make_prism(const double half_width, const double shift = 0.){
        const double w = half_width;
        std::vector<double> node_pos_lst{
            0.,  0.,  0.,    //A 0
            0., -3.,  0.,    //B 1
            -w, -1.5, 0.,    //C 2
             w, -1.5, 0.,    //D 3
            0.,  0., -1.,    //E 4
            0., -3., -1.,    //F 5
            -w, -1.5,-1.,    //G 6
             w, -1.5,-1.,    //H 7
        };
        std::vector<std::vector<unsigned>> face_conn_lst{
            {0, 1, 2}, {0, 1, 3}, {0, 4, 2}, {2, 6, 4}, {2, 6, 5}, {5, 1, 2},
            {0, 3, 7}, {7, 4, 0}, {3, 1, 5}, {5, 7, 3}, {4, 5, 6}, {4, 5, 7},
        };
        for(double& x : node_pos_lst) x += shift;   // rigid translation (same shift on x, y and z)
        mesh m;
        m.node_pos_lst   = node_pos_lst;
        m.face_point_ids = face_conn_lst;
        cell_ptr c = std::make_shared<cell>(m, 0);
        // Same initialisation as the simulation: edge set, manifold check, consistent outward winding,
        // cached normals/areas, area, volume.
        c->initialize_cell_properties(true);
        c->update_centroid();
        return c;
    }

    static vec3 winding_normal(const cell_ptr& c, const face& f){
        const auto [a, b, d] = f.get_node_ids();
        const vec3 pa = c->get_node(a).pos(), pb = c->get_node(b).pos(), pd = c->get_node(d).pos();
        vec3 n = (pb - pa).cross(pd - pa);
        const double l = n.norm();
        return l == 0. ? vec3(0.,0.,0.) : n / l;
    }

    // +1 if the face traverses n1->n2, -1 if n2->n1, 0 if the face does not contain the edge
    static int direction(const face& f, const unsigned n1, const unsigned n2){
        const auto ids = f.get_node_ids();
        for(int i = 0; i < 3; i++){
            if(ids[i] == n1 && ids[(i+1)%3] == n2) return +1;
            if(ids[i] == n2 && ids[(i+1)%3] == n1) return -1;
        }
        return 0;
    }

    static mesh_state inspect(const cell_ptr& c){
        mesh_state s;
        const vec3 centroid = c->compute_centroid();
        for(const face& f : c->get_face_lst()){
            if(!f.is_used()) continue;
            s.nb_faces++;
            const vec3 wn = winding_normal(c, f);
            if(f.get_normal().dot(wn) < 0.){ s.nb_stale_normals++; s.stale_faces.push_back(f.get_local_id()); }
            const auto [a, b, d] = f.get_node_ids();
            const vec3 fc = (c->get_node(a).pos() + c->get_node(b).pos() + c->get_node(d).pos()) / 3.;
            if(wn.dot(fc - centroid) < 0.) s.nb_inward_windings++;
        }
        for(const edge& e : c->get_edge_set()){
            s.nb_edges++;
            if(!e.is_manifold()){ s.nb_non_manifold_edges++; continue; }
            const face& fa = c->get_face_lst()[e.f1()];
            const face& fb = c->get_face_lst()[e.f2()];
            const int da = direction(fa, e.n1(), e.n2());
            const int db = direction(fb, e.n1(), e.n2());
            if(da == 0 || db == 0 || !fa.is_used() || !fb.is_used()){ s.nb_non_manifold_edges++; continue; }
            if(da == db) s.nb_same_dir_edges++;
        }
        s.signed_volume = c->compute_volume();
        return s;
    }

    static void print_state(const char* tag, const mesh_state& s){
        std::printf("    %-22s faces=%2u edges=%2u non_manifold=%u same_dir_edges=%u stale_normals=%u inward_windings=%u volume=%.4f",
            tag, s.nb_faces, s.nb_edges, s.nb_non_manifold_edges, s.nb_same_dir_edges, s.nb_stale_normals, s.nb_inward_windings, s.signed_volume);
        if(!s.stale_faces.empty()){
            std::printf("  stale_face_ids=");
            for(unsigned id : s.stale_faces) std::printf("%u ", id);
        }
        std::printf("\n");
    }

    static void print_faces(const cell_ptr& c){
        for(const face& f : c->get_face_lst()){
            if(!f.is_used()) continue;
            const auto [a, b, d] = f.get_node_ids();
            const vec3 wn = winding_normal(c, f);
            const vec3& cn = f.get_normal();
            std::printf("        face %2u (%u,%u,%u) cached=(% .3f,% .3f,% .3f) winding=(% .3f,% .3f,% .3f) dot=% .3f\n",
                f.get_local_id(), a, b, d, cn.dx(), cn.dy(), cn.dz(), wn.dx(), wn.dy(), wn.dz(), cn.dot(wn));
        }
    }

    // PART 1+2: swap each edge of a fresh valid prism, look for stale normals.
    // PART 3  : for each of the 2 faces created by the swap, split each of its edges other than the new diagonal.
    int swap_then_split(){
        const double w = 1.0;
        local_mesh_refiner lmr(0.1, 0.3);

        // collect the edges of the pristine mesh
        std::vector<std::pair<unsigned,unsigned>> edges;
        {
            cell_ptr c = make_prism(w);
            const mesh_state s0 = inspect(c);
            std::printf("PART 1  pristine prism (half_width=%.2f) after cell::initialize_cell_properties(true)\n", w);
            print_state("initial", s0);
            for(const edge& e : c->get_edge_set()) edges.push_back({e.n1(), e.n2()});
        }

        unsigned nb_swapped = 0, nb_swaps_with_stale = 0, nb_split_runs = 0, nb_split_runs_broken = 0;
        unsigned worst_same_dir = 0;

        std::printf("\nPART 2/3  for every edge: fresh prism -> swap_edge -> (for each of the 2 new faces, each non-diagonal edge) split_edge\n");
        for(const auto& [n1, n2] : edges){
            cell_ptr c = make_prism(w);
            const mesh_state s_before = inspect(c);
            std::vector<std::array<unsigned,3>> faces_before;
            for(const face& f : c->get_face_lst()){ auto ids = f.get_node_ids(); std::sort(ids.begin(), ids.end()); faces_before.push_back(ids); }

            auto it = c->get_edge_set().find(edge(n1, n2));
            if(it == c->get_edge_set().end()){ std::printf("edge not found\n"); return 1; }
            edge e_copy = *it;   // swap_edge erases the edge from the set: work on a copy like remove_elongated_triangles does
            const unsigned old_f1 = e_copy.f1(), old_f2 = e_copy.f2();
            const int dir_f1 = direction(c->get_face_lst()[old_f1], n1, n2);

            lmr.swap_edge(e_copy, c);

            const bool swapped = c->get_edge_set().find(edge(n1, n2)) == c->get_edge_set().end();
            if(!swapped){
                std::printf("  edge (%u,%u): swap_edge refused (pathological / diagonal already exists)\n", n1, n2);
                continue;
            }
            nb_swapped++;
            const mesh_state s_swap = inspect(c);
            std::printf("  edge (%u,%u): f1=%u traverses it %s\n", n1, n2, old_f1, dir_f1 > 0 ? "n1->n2" : "n2->n1");
            print_state("before swap", s_before);
            print_state("after  swap", s_swap);
            if(s_swap.nb_stale_normals > 0){ nb_swaps_with_stale++; print_faces(c); }

            // The two faces created by swap_edge = the used faces whose node set did not exist before the swap
            std::vector<unsigned> new_faces;
            for(const face& f : c->get_face_lst()){
                if(!f.is_used()) continue;
                auto ids = f.get_node_ids(); std::sort(ids.begin(), ids.end());
                if(std::find(faces_before.begin(), faces_before.end(), ids) == faces_before.end()) new_faces.push_back(f.get_local_id());
            }
            if(new_faces.size() != 2){ std::printf("expected 2 new faces, got %zu\n", new_faces.size()); return 1; }

            // For each new face, split each of its edges except the new diagonal (the edge shared by the 2 new faces)
            for(const unsigned new_id : new_faces){
                const auto ids = c->get_face_lst()[new_id].get_node_ids();
                for(int k = 0; k < 3; k++){
                    const unsigned a = ids[k], b = ids[(k+1)%3];

                    // rebuild the same post-swap state from scratch
                    cell_ptr c2 = make_prism(w);
                    edge e2 = *c2->get_edge_set().find(edge(n1, n2));
                    lmr.swap_edge(e2, c2);

                    auto it_s = c2->get_edge_set().find(edge(a, b));
                    if(it_s == c2->get_edge_set().end()){ std::printf("split edge not found\n"); return 1; }
                    edge e_split = *it_s;
                    const unsigned other = e_split.f1() == new_id ? e_split.f2() : e_split.f1();
                    if(other == new_faces[0] || other == new_faces[1]) continue;   // the new diagonal

                    edge_set to_check = c2->get_edge_set();
                    lmr.split_edge(e_split, c2, to_check);
                    const mesh_state s_split = inspect(c2);
                    nb_split_runs++;
                    char tag[64];
                    std::snprintf(tag, sizeof tag, "after split (%u,%u)", a, b);
                    print_state(tag, s_split);
                    if(s_split.nb_same_dir_edges > 0){ nb_split_runs_broken++; }
                    if(s_split.nb_same_dir_edges > worst_same_dir) worst_same_dir = s_split.nb_same_dir_edges;
                }
            }
        }

        std::printf("\nSUMMARY swap_then_split: edges=%zu swapped=%u swaps_leaving_stale_normals=%u split_runs=%u split_runs_with_same_dir_edges=%u worst_same_dir_edges=%u\n",
            edges.size(), nb_swapped, nb_swaps_with_stale, nb_split_runs, nb_split_runs_broken, worst_same_dir);
        return 0;
    }

    // PART 4: end to end through the public entry point refine_mesh(): a thin prism whose top/bottom triangles are
    // elongated enough (score < 0.2) to trigger remove_elongated_triangles -> swap_edge, and whose long edges exceed l_max.
    int end_to_end(){
        std::printf("\nPART 4  end-to-end local_mesh_refiner::refine_mesh on thin prisms (swap enabled vs disabled)\n");
        for(const double w : {0.2, 0.15}){
            for(const double l_max : {1.2, 0.8}){
                for(const bool enable_swap : {true, false}){
                    cell_ptr c = make_prism(w, 2.0);   // translated by (2,2,2) so that mis-oriented faces show up in the signed volume
                    const mesh_state s0 = inspect(c);
                    local_mesh_refiner lmr(0.05, l_max, enable_swap);
                    std::string err;
                    try{ lmr.refine_mesh(c); } catch(const std::exception& e){ err = e.what(); }
                    const mesh_state s1 = inspect(c);
                    std::printf("  half_width=%.2f l_min=0.05 l_max=%.2f swap=%d %s\n", w, l_max, (int)enable_swap, err.empty() ? "" : ("EXCEPTION: " + err).c_str());
                    print_state("before refine_mesh", s0);
                    print_state("after  refine_mesh", s1);
                    // what the solver does next: refresh every cached normal from the (now wrong) windings
                    c->update_all_face_normals_and_areas();
                    const mesh_state s2 = inspect(c);
                    print_state("after normals refresh", s2);
                }
            }
        }
        return 0;
    }
};

int main(){
    local_mesh_refiner_tester t;
    int r = t.swap_then_split();
    r |= t.end_to_end();
    return r;
}
