// Replay for D22: automatic_polarizer::get_region_in_contact_with_face takes the voxel boundaries of its ray marching from the
// absolute lattice voxel_size*floor(x/voxel_size), while the region grid is anchored at the bounding box of the tissue.
// The face types assigned by polarize_faces therefore depend on where the tissue lies (modulo the voxel size).
#include <cassert>
#include <iostream>
#include <string>
#include <vector>
#include "custom_structures.hpp"
#include "epithelial_cell.hpp"
#include "mesh_reader.hpp"
#include "automatic_polarizer.hpp"

static std::vector<std::vector<unsigned short>> run(const std::string& file, double tx, double ty, double tz){
    mesh_reader reader(file);
    std::vector<mesh> meshes = reader.read();
    constexpr double max_edge_length = 3. * 5e-7;
    auto ct = std::make_shared<cell_type_parameters>();
    ct->name_ = "epithelial"; ct->global_type_id_ = 0;
    face_type_parameters a, l, b;
    a.name_ = "apical";  a.face_type_global_id_ = 0;
    l.name_ = "lateral"; l.face_type_global_id_ = 1;
    b.name_ = "basal";   b.face_type_global_id_ = 2;
    ct->add_face_type(a); ct->add_face_type(l); ct->add_face_type(b);
    std::vector<cell_ptr> cells;
    unsigned id = 0;
    for(mesh& m: meshes){
        for(size_t i = 0; i < m.node_pos_lst.size(); i += 3){m.node_pos_lst[i] += tx; m.node_pos_lst[i+1] += ty; m.node_pos_lst[i+2] += tz;}
        cell_ptr c = std::make_shared<epithelial_cell>(m, id++, ct);
        c->initialize_cell_properties();
        c->update_centroid();
        c->update_all_face_normals_and_areas();
        cells.push_back(c);
    }
    automatic_polarizer polarizer(max_edge_length);
    polarizer.polarize_faces(cells);
    std::vector<std::vector<unsigned short>> out;
    for(auto& c: cells){
        std::vector<unsigned short> t;
        for(const face& f: c->get_face_lst()) t.push_back(f.get_local_face_type_id());
        out.push_back(t);
    }
    return out;
}

int main(int argc, char** argv){
    const std::string file = argv[1];
    const double h = 3. * 5e-7;                       // the voxel size used by the polarizer is derived from this length
    const auto ref = run(file, 0., 0., 0.);
    size_t total = 0; for(auto& v: ref) total += v.size();
    int worst = 0;
    const double shifts[][3] = {{0.37*h, 0.21*h, 0.59*h}, {0.5*h, 0.5*h, 0.5*h}, {1000.*h + 0.13*h, -777.*h + 0.71*h, 0.29*h}, {3.*h, -2.*h, 5.*h}};
    for(auto& s: shifts){
        const auto tr = run(file, s[0], s[1], s[2]);
        size_t diff = 0;
        for(size_t c = 0; c < ref.size(); c++) for(size_t f = 0; f < ref[c].size(); f++) if(ref[c][f] != tr[c][f]) diff++;
        std::cout << "translation (" << s[0] << ", " << s[1] << ", " << s[2] << "): " << diff << " of " << total << " faces get another face type" << std::endl;
        if(diff > 0) worst++;
    }
    std::cout << (worst ? "REPLAY: face types depend on the position of the tissue" : "REPLAY: face types identical for all translations") << std::endl;
    return worst ? 1 : 0;
}
