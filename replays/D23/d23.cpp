// Replay for D23: automatic_polarizer::update_grid_dimensions takes the extrema over ALL node slots of the cells, including the
// free slots left by the mesh refiner, whose position is reset to (0,0,0). With one free slot the region grid spans from the
// tissue to the origin of the coordinate system: its size (memory) grows with the distance of the tissue from the origin and its
// voxel lattice is anchored somewhere else, so the face types differ from the ones obtained without the free slot.
#include <iostream>
#include <string>
#include <vector>
#include "custom_structures.hpp"
#include "epithelial_cell.hpp"
#include "mesh_reader.hpp"
#include "automatic_polarizer.hpp"

struct result { std::vector<std::vector<unsigned short>> types; };

static result run(const std::string& file, double t, bool free_slot){
    mesh_reader reader(file);
    std::vector<mesh> meshes = reader.read();
    constexpr double max_edge_length = 3. * 5e-7;
    auto ct = std::make_shared<cell_type_parameters>();
    ct->name_ = "epithelial"; ct->global_type_id_ = 0;
    face_type_parameters a, l, b;
    a.name_ = "apical";  a.face_type_global_id_ = 0;
    l.name_ = "lateral"; l.face_type_global_id_ = 1;
    b.name_ = "basal";   b.face_type_global_id_ = 2;
    ct->add_face_type(a); ct->add_face_type(l); ct->add_face_type(b);
    std::vector<cell_ptr> cells;
    unsigned id = 0;
    for(mesh& m: meshes){
        for(size_t i = 0; i < m.node_pos_lst.size(); i++) m.node_pos_lst[i] += t;
        cell_ptr c = std::make_shared<epithelial_cell>(m, id++, ct);
        c->initialize_cell_properties();
        c->update_centroid();
        c->update_all_face_normals_and_areas();
        cells.push_back(c);
    }
    if(free_slot){
        // what an edge collapse of the mesh refiner leaves behind: a node slot that is not used any more
        const vec3 p = cells[0]->get_node_lst()[0].pos();
        const unsigned n = cells[0]->create_node(p);
        cells[0]->delete_node(n);
    }
    automatic_polarizer polarizer(max_edge_length);
    polarizer.polarize_faces(cells);
    result r;
    for(auto& c: cells){
        std::vector<unsigned short> ty;
        for(const face& f: c->get_face_lst()) if(f.is_used()) ty.push_back(f.get_local_face_type_id());
        r.types.push_back(ty);
    }
    return r;
}

int main(int argc, char** argv){
    const std::string file = argv[1];
    const double h = 3. * 5e-7;
    int bad = 0;
    for(double k: {40., 150.}){
        const double t = k * h + 0.37 * h;
        const result without = run(file, t, false);
        const result with    = run(file, t, true);
        size_t total = 0, diff = 0;
        for(size_t c = 0; c < without.types.size(); c++) for(size_t f = 0; f < without.types[c].size(); f++){ total++; if(without.types[c][f] != with.types[c][f]) diff++; }
        std::cout << "tissue translated by " << t << " along x, y, z: one free node slot in cell 0 changes the face type of " << diff << " of " << total << " faces" << std::endl;
        if(diff) bad++;
    }
    std::cout << (bad ? "REPLAY: an unused node slot changes the result of the polarizer" : "REPLAY: unused node slots have no influence") << std::endl;
    return bad ? 1 : 0;
}
