#!/bin/bash
# usage: build_replay.sh <source-root>  -> builds and runs d23 against the sources under <source-root>
R=${1:-/repo}
D=$(mktemp -d)
INC=$(find $R/include -type d -not -path "*/python*" | sed 's/^/-I/' | tr '\n' ' ')
SRCS=$(ls $R/src/mesh/*.cpp $R/src/mesh/cell_types/*.cpp $R/src/math_modules/*.cpp $R/src/io/mesh_reader.cpp $R/src/automatic_polarization/automatic_polarizer.cpp $R/src/uspg/*.cpp $R/src/triangulation_modules/*.cpp $R/lib/delaunator/src/*.cpp 2>/dev/null)
g++ -std=gnu++17 -O1 -fopenmp -DNDEBUG $INC -I$R/lib/delaunator/include -DPROJECT_SOURCE_DIR=\"$R\" $(dirname $0)/d23.cpp $SRCS -o $D/d23 2> $D/build.log || { tail -30 $D/build.log; rm -rf $D; exit 2; }
$D/d23 $R/test/test_automatic_polarization/lumen_geometry.vtk; rc=$?
rm -rf $D
exit $rc
