// D12 replay driver: poisson_sampling::uniform_sampling(cell_ptr, l_min) called from the main thread (as the unit tests do),
// so that its "#pragma omp parallel for reduction(merge: ...)" loop is a real (non nested) parallel region.
// Geometry: unit cube of the unit test test_poisson_sampling.cpp (6 quads -> 24 triangles after coarse_triangulation).
#include <iostream>
#include <omp.h>
#include "initial_triangulation.hpp"
#include "poisson_sampling.hpp"

int main(int argc, char** argv){
    const double l_min = (argc > 1) ? std::atof(argv[1]) : 0.1;
    mesh m;
    m.node_pos_lst = {0,0,0, 1,0,0, 1,1,0, 0,1,0, 0,0,1, 1,0,1, 1,1,1, 0,1,1};
    m.face_point_ids = {{0,3,2,1},{4,5,6,7},{0,1,5,4},{1,2,6,5},{2,3,7,6},{3,0,4,7}};
    initial_triangulation::coarse_triangulation(m);
    cell_ptr c1 = initial_triangulation::convert_mesh_to_cell(m);
    std::cout << "faces: " << c1->get_nb_of_faces() << ", max threads: " << omp_get_max_threads() << std::endl;
    std::vector<oriented_point> pts = poisson_sampling::uniform_sampling(c1, l_min);
    std::cout << "sampled points: " << pts.size() << std::endl;
    return 0;
}
