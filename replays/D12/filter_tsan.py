#!/usr/bin/env python3
# Splits a TSan log into reports; prints in full the reports that touch the random generator (linear_congruential_engine = std::minstd_rand)
# and only counts the others (accesses inside the "declare reduction(merge ...)" combiner at poisson_sampling.cpp:139 / the private
# vectors handed over by it: they are ordered by libgomp's internal lock + barrier, which the uninstrumented libgomp hides from TSan).
import sys, re, collections
txt = open(sys.argv[1]).read()
parts = txt.split("==================\n")
reports = [p for p in parts if "WARNING: ThreadSanitizer" in p]
other = [p for p in parts if "WARNING: ThreadSanitizer" not in p and p.strip()]
gen = [r for r in reports if "linear_congruential_engine" in r]
rest = [r for r in reports if "linear_congruential_engine" not in r]
for o in other: print(o.rstrip()[:2000])
print("TSan reports in total: %d ; on the random generator state: %d ; others (reduction combiner / merged vectors): %d" % (len(reports), len(gen), len(rest)))
print()
for r in gen:
    print("==================")
    print("\n".join(l[:230] for l in r.rstrip().split("\n")))
print()
c = collections.Counter()
for r in rest:
    m = re.search(r"poisson_sampling\.cpp:(\d+)", r)
    c["first project frame poisson_sampling.cpp:%s" % (m.group(1) if m else "?")] += 1
for k, v in sorted(c.items()): print("other reports, %s : %d" % (k, v))
