#!/bin/bash
# runs the 4 corrupted inputs through the ASan simulator and 3 of them through the default build; libstdc++-internal frames are dropped from the traces
cd /tmp/replay_b/replay/D14
for k in id_33 id_999999 empty_record id_overflow; do
  echo "\$ build_asan/simucell3d params_$k.xml      (ASan)"
  ASAN_OPTIONS=detect_leaks=0:new_delete_type_mismatch=0 OMP_NUM_THREADS=4 /tmp/replay_b/build_asan/simucell3d /tmp/replay_b/replay/D14/params_$k.xml 2>&1 | grep -v "^Progression\|^Triangulating" | awk '/^    #[0-9]+ 0x/ && !/\/tmp\/replay_b\/(src|main|include)/ {next} /^Shadow bytes/ {exit} {print}' | cut -c1-420
  echo "exit status: ${PIPESTATUS[0]}"; echo
done
for k in id_33 id_999999 empty_record; do
  echo "\$ build_rel/simucell3d params_$k.xml      (default project build, no sanitizer)"
  OMP_NUM_THREADS=4 /tmp/replay_b/build_rel/simucell3d /tmp/replay_b/replay/D14/params_$k.xml 2>&1 | grep -v "^Progression" | head -20 | cut -c1-420
  echo "exit status: ${PIPESTATUS[0]}"; echo
done
