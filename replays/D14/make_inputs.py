#!/usr/bin/env python3
# D14 inputs: data/input_meshes/4_cubes.vtk (32 points, 4 cells) with one corruption each in the CELLS section
import os, re
root = "/tmp/replay_b"; here = os.path.dirname(os.path.abspath(__file__))
m = open(root + "/data/input_meshes/4_cubes.vtk").read()
last = "49 12 3 24 25 27 3 26 27 25 3 24 28 25 3 29 25 28 3 24 27 28 3 30 28 27 3 25 29 26 3 31 26 29 3 29 28 31 3 30 31 28 3 27 26 30 3 31 30 26 \n"
assert m.count(last) == 1
variants = {
  "ok":            m,
  "id_33":         m.replace(last, last.replace("3 31 26 29", "3 33 26 29")),        # point id 33 >= 32 points (just past the end of node_pos)
  "id_999999":     m.replace(last, last.replace("3 31 26 29", "3 999999 26 29")),    # far out of range
  "empty_record":  m.replace(last, "0     \n"),                                      # record announcing 0 integers (line longer than 3 chars, so not skipped)
  "id_overflow":   m.replace(last, last.replace("3 31 26 29", "3 99999999999 26 29")),# does not fit an int: std::stoi throws std::out_of_range
}
x = open(root + "/parameters_default_dynamic.xml").read()
x = re.sub(r"<simulation_duration>[^<]*<", "<simulation_duration>2e-7<", x)
for k, v in variants.items():
    open("%s/cubes_%s.vtk" % (here, k), "w").write(v)
    y = re.sub(r"<input_mesh_file_path>[^<]*<", "<input_mesh_file_path>%s/cubes_%s.vtk<" % (here, k), x)
    y = re.sub(r"<output_mesh_folder_path>[^<]*<", "<output_mesh_folder_path>%s/out<" % here, y)
    open("%s/params_%s.xml" % (here, k), "w").write(y)
