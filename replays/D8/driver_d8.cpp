// D8 replay: ball_pivoting_algorithm::fill_surface_holes() iterates `for(edge& e: edge_lst_)` while its body
// calls get_edge() -> edge_lst_.emplace_back() (reallocation => the range-for iterators dangle).
//
// The driver performs exactly the steps of initial_triangulation::triangulate_surface() (the code path used by
// the simulator for every input cell) but keeps the Poisson point cloud, so that a failing cloud can be replayed.
//
//   driver_d8 search <input.vtk> <l_min> <max_tries> <cloud_out>   : new random clouds until the process dies (ASan abort)
//   driver_d8 replay <cloud_file>                                  : re-run the BPA on a saved cloud
#include <iostream>
#include <fstream>
#include <iomanip>
#include <vector>
#include <cstdlib>
#include "mesh_reader.hpp"
#include "custom_structures.hpp"
#include "initial_triangulation.hpp"
#include "ball_pivoting_algorithm.hpp"

struct cloud_t{ double l_min; double bb[6]; std::vector<oriented_point> pts; };

static void save_cloud(const std::string& path, const cloud_t& c){
    std::ofstream f(path); f << std::setprecision(17);
    f << c.l_min << "\n"; for(double b: c.bb) f << b << " "; f << "\n" << c.pts.size() << "\n";
    for(const auto& p: c.pts) f << p.id_ << " " << p.position_.dx() << " " << p.position_.dy() << " " << p.position_.dz() << " "
                                << p.normal_.dx() << " " << p.normal_.dy() << " " << p.normal_.dz() << " " << p.created_by_poisson_sampling_ << "\n";
}
static cloud_t load_cloud(const std::string& path){
    std::ifstream f(path); cloud_t c; size_t n; f >> c.l_min; for(double& b: c.bb) f >> b; f >> n;
    for(size_t k = 0; k < n; k++){unsigned id; double x,y,z,nx,ny,nz; bool b; f >> id >> x >> y >> z >> nx >> ny >> nz >> b;
        oriented_point p(id, vec3(x,y,z), vec3(nx,ny,nz)); p.created_by_poisson_sampling_ = b; c.pts.push_back(p);}
    return c;
}

//Returns the number of faces, throws what the BPA throws
static size_t run_bpa(const cloud_t& c){
    srand(1); //find_seed_triangle() uses std::random_shuffle -> rand(); make search and replay identical
    ball_pivoting_algorithm bpa(c.pts, c.l_min, c.bb[0], c.bb[1], c.bb[2], c.bb[3], c.bb[4], c.bb[5]);
    bpa.find_seed_triangle();
    bpa.expand_triangulation();
    const size_t nb_edges_before = bpa.get_edge_lst().size(), nb_nodes_before = bpa.get_node_lst().size();
    size_t nb_open = 0; for(const edge& e: bpa.get_edge_lst()) if(!e.is_manifold()) nb_open++;
    std::cout << "  after expand_triangulation: " << nb_edges_before << " edges, " << nb_open << " of them border a hole" << std::endl;
    bpa.fill_surface_holes();
    std::cout << "  after fill_surface_holes  : " << bpa.get_edge_lst().size() << " edges (+" << bpa.get_edge_lst().size() - nb_edges_before
              << "), " << bpa.get_node_lst().size() - nb_nodes_before << " hole(s) filled" << std::endl;
    return bpa.get_face_lst().size();
}

int main(int argc, char** argv){
    const std::string mode = argc > 1 ? argv[1] : "";
    if(mode == "replay" && argc == 3){
        cloud_t c = load_cloud(argv[2]);
        std::cout << "replaying cloud " << argv[2] << " (" << c.pts.size() << " points, l_min " << c.l_min << ")" << std::endl;
        try{ const size_t nb_faces = run_bpa(c); std::cout << "  BPA finished, " << nb_faces << " faces" << std::endl; }
        catch(const std::exception& e){ std::cout << "  BPA threw: " << e.what() << std::endl; }
        return 0;
    }
    if(mode == "search" && argc == 6){
        mesh_reader reader(std::string(PROJECT_SOURCE_DIR) + "/" + argv[2]);
        mesh surface = reader.read().at(0);
        const double l_min = atof(argv[3]); const int max_tries = atoi(argv[4]);
        //Same steps as initial_triangulation::triangulate_surface()
        initial_triangulation::coarse_triangulation(surface);
        cell_ptr c1 = initial_triangulation::convert_mesh_to_cell(surface);
        for(int k = 0; k < max_tries; k++){
            cloud_t c; c.l_min = l_min;
            c.pts = initial_triangulation::generate_poisson_point_cloud(l_min, c1);
            const auto [min_x, min_y, min_z, max_x, max_y, max_z] = c1->get_aabb();
            const double bb[6] = {min_x, min_y, min_z, max_x, max_y, max_z}; std::copy(bb, bb+6, c.bb);
            save_cloud(argv[5], c);
            std::cout << "try " << k << ": " << c.pts.size() << " points" << std::endl;
            try{ const size_t nb_faces = run_bpa(c); std::cout << "  BPA finished, " << nb_faces << " faces" << std::endl; }
            catch(const std::exception& e){ std::cout << "  BPA threw: " << e.what() << std::endl; }
        }
        return 0;
    }
    std::cout << "usage: driver_d8 search <input.vtk> <l_min> <max_tries> <cloud_out> | replay <cloud_file>" << std::endl;
    return 2;
}
