// D8 replay, deterministic variant: hand-built BPA state with one 4-edge hole, through the `bpa_tester` friend
// class that ball_pivoting_algorithm.hpp declares for exactly this purpose (the project's own test,
// test/test_triangulation_modules/test_bpa/test_bpa.cpp::fill_surface_holes_test, builds this very box with the
// two top faces ABC / ABD missing, but never calls fill_surface_holes()).
#include <iostream>
#include <vector>
#include <algorithm>
#include "custom_structures.hpp"
#include "ball_pivoting_algorithm.hpp"

class bpa_tester{
    public:
    static int run(){
        std::vector<double> pos{
            0.,  0., 0.,   1.,  0., 0.,   0.5, 1., 0.,   0.5, -1., 0.,   0.,  1.,  0.,   1.,  1.,  0.,   1., -1., 0.,   0., -1., 0.,  //A..H (top, z=0)
            0.,  0., -1.,  1.,  0., -1.,  0.5, 1., -1.,  0.5, -1., -1.,  0.,  1., -1.,   1.,  1., -1.,   1., -1., -1.,  0., -1., -1.  //I..P (bottom, z=-1)
        };
        std::vector<std::vector<unsigned>> faces{
            /* top, faces ABC {0,1,2} and ABD {0,1,3} are missing: hole A-C-B-D */
            {0, 2, 4}, {1, 2, 5}, {0, 3, 7}, {1, 6, 3},
            /* bottom */ {8, 9, 10}, {8, 9, 11}, {8, 10, 12}, {9, 10, 13}, {8, 11, 15}, {9, 14, 11},
            /* sides  */ {0, 8, 4}, {4, 12, 8}, {0, 8, 15}, {15, 7, 0}, {1, 9, 5}, {5, 13, 9}, {1, 9, 14}, {14, 6, 1},
                         {4, 2, 10}, {10, 12, 4}, {5, 2, 10}, {10, 13, 5}, {7, 3, 11}, {11, 15, 7}, {6, 3, 11}, {11, 14, 6}
        };
        //Insert a node at the centre of 7 faces (6 bottom, 1 side) (each: +1 node, +2 faces, +3 edges) so that the number of
        //edges (41 + 21 = 62) sits just below the capacity that 62 emplace_back()s give to a std::vector (64):
        //filling the hole needs 4 new edges.
        for(unsigned k = 0; k < 7; k++){
            std::vector<unsigned> f = faces[4 + k];
            const unsigned c = pos.size() / 3;
            for(unsigned d = 0; d < 3; d++) pos.push_back((pos[3*f[0]+d] + pos[3*f[1]+d] + pos[3*f[2]+d]) / 3.);
            faces[4 + k] = {f[0], f[1], c}; faces.push_back({f[1], f[2], c}); faces.push_back({f[2], f[0], c});
        }

        ball_pivoting_algorithm bpa(1.); //the private "testing purposes" constructor
        const vec3 box_center(0.5, 0., -0.5);
        for(unsigned id = 0; id < pos.size() / 3; id++){
            const vec3 p(pos[3*id], pos[3*id+1], pos[3*id+2]);
            bpa.node_lst_.emplace_back(id, p, (p - box_center).normalize());
        }
        //Register faces / edges the same way find_seed_triangle() and expand_triangulation() do
        for(const auto& f: faces){
            const unsigned face_id = bpa.face_lst_.size();
            bpa.face_lst_.emplace_back(f[0], f[1], f[2], face_id);
            for(unsigned i = 2, j = 0; j < 3; i = j++){
                const unsigned e_id = bpa.get_edge(f[i], f[j]);
                bpa.edge_lst_[e_id].add_face(face_id);
                for(unsigned n: {f[i], f[j]}){
                    auto& lst = bpa.node_edge_lst_[n];
                    if(std::find(lst.begin(), lst.end(), e_id) == lst.end()) lst.push_back(e_id);
                }
            }
            for(unsigned n: f) bpa.node_face_lst_[n].push_back(face_id);
        }
        size_t nb_open = 0; for(const edge& e: bpa.edge_lst_) if(!e.is_manifold()) nb_open++;
        std::cout << "before fill_surface_holes: " << bpa.node_lst_.size() << " nodes, " << bpa.face_lst_.size() << " faces, "
                  << bpa.edge_lst_.size() << " edges (vector capacity " << bpa.edge_lst_.capacity() << "), " << nb_open << " edges border a hole" << std::endl;
        try{
            bpa.fill_surface_holes();
        }catch(const std::exception& e){
            std::cout << "fill_surface_holes threw: " << e.what() << std::endl;
        }
        nb_open = 0; for(const edge& e: bpa.edge_lst_) if(!e.is_manifold()) nb_open++;
        std::cout << "after  fill_surface_holes: " << bpa.node_lst_.size() << " nodes, " << bpa.face_lst_.size() << " faces, "
                  << bpa.edge_lst_.size() << " edges (vector capacity " << bpa.edge_lst_.capacity() << "), " << nb_open << " edges border a hole" << std::endl;
        std::cout << "expected                 : 24 nodes, 44 faces, 66 edges, 0 edges border a hole" << std::endl;
        return 0;
    }
};

int main(){ return bpa_tester::run(); }
