#!/bin/bash
# usage: run_seeded.sh <dir-with-patch.diff> <PROP> [tier]   applies the patch to /repo, runs ./check, reverts
D=$1; P=$2; T=${3:-quick}
git -C /repo apply $D/patch.diff || { echo "patch does not apply"; exit 2; }
(cd /verif && ./check $P --tier $T > /tmp/run_seeded.out 2>&1; echo "rc=$?" >> /tmp/run_seeded.out)
git -C /repo checkout -- .
grep -E "^VIOLATION|^ANALYSIS|^property=|^rc=|rule=" /tmp/run_seeded.out | cut -c1-260
