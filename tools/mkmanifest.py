#!/usr/bin/env python3
"""Regenerates /verif/MANIFEST.json from the table below (claims) + not_applicable reasons."""
import json, os
HERE = os.path.dirname(os.path.dirname(os.path.abspath(__file__)))
props = [json.loads(l) for l in open(os.path.join(HERE, "properties.jsonl"))]

CLAIMS = {
 "C10": dict(
   technique="typestate/dataflow over clang AST: container-invalidation (may-grow summaries on the call graph), class-hierarchy destructor rule, phase-order initialisation analysis, literal-format buffer bound",
   text="Decides the five anchored mechanisms of C10 for every path of every product function in all six compile-time configurations: references/iterators into std::vector members are never used after a call that may grow that vector (E1), no range-for grows its own container, no container is resized in a parallel region while accessed unsynchronised, owners through unique_ptr<Base> have virtual destructors (E7), scalar fields without initialiser are written before the first phase of solver::solver/run_iteration that reads them (E8), format_number's buffer bound, remove_index's sortedness precondition. This is rule conformance over an enumerated instance set, not absence of UB in general (not statically decidable here).",
   note="Trusted: clang 14 sema, the serialiser, syntactic object identity (no alias analysis beyond handle expressions), CHA for virtual calls, vector growth assumed to reallocate. Not decided: everything else a sanitizer would see (arithmetic UB, out-of-range indices, lifetime through raw face* caches).",
   ref="DESIGN.md section 4 C10, section 3 E1/E7/E8"),
 "C09": dict(
   technique="may-throw and may-write effect summaries over the resolved call graph; must-pass-through on the structured CFG",
   text="Decides the structural half of C09 in all six configurations: divide_cell's single try catches every type its callee closure may throw and no noexcept function on its cone leaks an exception (no crash on failed division); its may-write effects on the mother are within cell::rebase's; daughters are returned only after initialize_cell_properties(true); each inherits mother.target_volume_/2; every concrete cell class constructs its own class; cell_divider::run appends two cells / records one removal under critical with ids from the post-incremented shared counter, removes and renumbers after the loop, and never resizes the list while other threads read it; no size of the mother's node/face list is kept in the divider across a call that may compact that list. Also: the identity shortcut of map_points_to_xy_plane is taken only for a division normal that is exactly the z axis. Also: the origin of the cut plane and of the daughter sorting is the mother's centroid computed from her current node positions (compute_centroid(), not the cache refreshed by the mesh refiner).",
   note="Geometric clauses (daughter volumes, sides of the plane, manifoldness of the cut) quantify over meshes and are not decided. Trusted: CHA, syntactic object identity, frozen table of throwing std calls.",
   ref="DESIGN.md section 4 C09"),
}

CLAIMS.update({
 "C05": dict(
   technique="symbolic normal forms (sympy) of the kernel's return expressions obtained by def-use expansion over clang's AST; compositional translation-weight typing",
   text="Decides, for all operand values and for each of the seven return statements of compute_node_triangle_distance: the barycentric components sum to one; the returned squared distance is the squared distance from the query point to the point those components designate; both are unchanged under a common translation. An identity on the expression is stronger than any number of samples. It does not decide that the region tests pick the closest point, non-negativity of the components, rotation invariance or rounding - those need reasoning under branch conditions / floating point, which this family does not do. Also: each result that designates a vertex or an edge point is returned exactly under the Voronoi-region test of that feature (polynomial identities in the coordinates of p, a, b, c). Also: the returned squared distance has the form |p - closest|^2 for the closest point the triple describes, on every return.",
   note="Trusted: sympy expand/cancel for polynomial identity; refutations are exact non-zero values at rational points (sound). vec3's operators are opened from their own AST, not modelled. No branch condition is interpreted.",
   ref="DESIGN.md section 4 C05, section 2 (LF engine)"),
 "C07": dict(
   technique="symbolic force/torque ledgers per force block (LF engine) + dominance rules on the structured CFG + constructor store summaries, all three contact models",
   text="Decides for every force block of the three contact models (all six configurations): the add_force arguments sum to zero and the net torque is zero for all operand values (lemma: kernel components sum to 1, proved in the same run), four distinct receivers; each block and each coupling is dominated by 'squared distance < squared configured cut-off' with the cut-off fields' values established from the constructor; the contact routine is only called for different cells; in the repulsive block the node force is -s(x_node - x_cpa) with s a product of non-negative atoms; the repulsive/adhesive decision table agrees across models and with the documented rule.",
   note="Assumes non-negative strengths, areas and barycentric coordinates. Does not decide the correctness of the inside/outside decision for arbitrary geometry, nor atomicity (see C15).",
   ref="DESIGN.md section 4 C07"),
})

CLAIMS.update({
 "C03": dict(
   technique="symbolic store summaries of the integrator's straight-line update blocks (LF engine) + dominance rules, six configurations",
   text="Decides per update block of update_nodes_positions, for all operand values and in all six configurations: the momentum increment is (F - gamma*p/m)*dt and the displacement p'*dt/m (after the momentum update) resp. F*dt/gamma; m is the node mass of the node's own cell (mean of both cells for a pair); averaging resets preserve the pair's total momentum/force and both nodes get the same displacement; every advanced node ends with a zero force accumulator; every write is dominated by the owning cell's static test, couplings exist only between type-0 cells and only ecm/static classes set is_static_; simulation_time_ has one writer '+= dt_' outside loops and dt_/damping_coeff_ are wired to the parameters. On the pinned tree this reports the known finding D17 (CM 2: position advanced with the pre-update momentum). Also: a node is never advanced through a by-value copy; simulation_time_ is not advanced inside a parallel region (also decided on the unit re-parsed with -fopenmp, because the product builds the time_integration library without it).",
   note="Loops are not executed: in CM 2 the loop-accumulated averages are opaque atoms and only the per-node update forms are decided. No reasoning over many steps or about floating-point exactness of 'exactly one time step'.",
   ref="DESIGN.md section 4 C03"),
 "C13": dict(
   technique="must-pass-through on the structured CFG with retry-idiom recognition; may-throw summaries; guard dataflow",
   text="Decides the structural half of C13: triangulate_surface can only return a cell that passed initialize_cell_properties(check=true) on that path (bounded-retry idiom recognised, failure exit throws intialization_exception); initialize_cell_properties(true) passes through generate_edge_set, throws on !is_manifold() and orients normals; per-cell work runs under parallel_exception_handler; no noexcept function on the start-up cone leaks an exception; every insertion into the Poisson grid is guarded by the all-neighbours |p-q|^2 < l_min*l_min rejection over the neighbourhood of the same grid. Also: cell::is_manifold tests both 'every edge has two faces' and V - E + F == 2; the grid in which accepted Poisson samples are looked up has a voxel size >= the rejection distance; parallel_exception_handler transports the worker's exception unchanged (catch(...) + current_exception, no slicing). Also: the stored face normals are computed after the orientation repair in initialize_cell_properties; no function on the start-up cone keeps a function-local static initialised from run-time values. Also: the ball-pivoting algorithm is given the same length as the minimum spacing of the sampled point cloud. Also: the handlers of the retry loop catch every failure of an attempt; the Poisson sampling rejects a candidate closer than l_min to any accepted neighbour, without exemptions.",
   note="Fidelity of the reconstruction (volume, bounding box, distance to the input surface) and the success probability are value-level and not decided. Neighbourhood completeness is C20.",
   ref="DESIGN.md section 4 C13"),
 "C15": dict(
   technique="OpenMP region analysis over clang AST with the build's own flags: may-write effect summaries (call graph fixpoint), may-throw containment, container-resize typestate",
   text="Decides data-race freedom and exception containment of every parallel region (directive regions and parallel_exception_handler call sites) in all six configurations: no exception can leave a region; a catch(...) in a region only stores current_exception() under critical and it is rethrown right after; no container is resized in a region while accessed outside the same critical section; every mutation of shared state by the region body or its whole callee closure is atomic, critical, under the node's lock, or confined to the loop's own element; vec3::translate's updates are atomic in the program as built (the compile database's flags are used, which is how the missing -fopenmp of math_modules was found). Also: the region rules are also decided for units built without -fopenmp whose pragmas are currently ignored (latent), restricted to writes to variables declared outside the region; after the parallel division loop the whole list is renumbered from 0 after every population change. Also: no function executed inside a parallel region (body or callee closure) declares a mutable function-local static; the three component updates of vec3::translate are atomic also when written through a helper taking double& or a delegating overload. Also: no work is reserved for one particular thread id inside a work-shared region.",
   note="Bit-identity of results across thread counts and schedules is not decided (no schedule exploration in this family). Aliasing between different handles is not tracked; virtual calls by CHA.",
   ref="DESIGN.md section 4 C15, section 3 E6"),
 "C17": dict(
   technique="exception-type lattice + may-throw summaries, nullable-result guard dataflow, taint-to-bound-check dominance with linear-form sufficiency and signedness of the comparison",
   text="Decides for every input (all paths): every throw is std::exception-derived; nothing that may throw in main is outside its try/catch(std::exception); no noexcept function on the start-up cone (simulation_initializer, parameter_reader, mesh_reader, solver constructors) leaks a callee's exception; every nullable tinyxml2 result is tested before dereference or std::string construction (one level of interprocedural propagation); every vector subscript / iterator offset derived from file integers in mesh_reader, and every subscript by an integer the reader returned (the cell-type ids used by the initializer), is dominated by a bound check against that container; for iterator arithmetic the check is also shown to be sufficient in linear integer arithmetic (position reached - size <= the guard's own form), and a signed index must be compared in unsigned arithmetic or be tested against 0.",
   note="Termination, memory proportionality and std::regex behaviour are not decided. tinyxml2 and the throwing std calls are summarised by frozen tables. optional::value() in noexcept accessors is excluded (guard lives in callers).",
   ref="DESIGN.md section 4 C17"),
})

CLAIMS.update({
 "C06": dict(
   technique="decomposition of the completeness argument into structural clauses: constructor store summaries (LF engine), quantisation normal forms, box layout / slot agreement, index-pairing and loop-range rules over clang AST, three contact models",
   text="Decides every link of the argument 'node within the cut-off of a face => the pair reaches the narrow phase' on the code of all three contact models: padding = max(cut-offs) and every narrow-phase cut-off is bounded by it (lattice table on the constructor's symbolic store); box layout written by update_face_aabbs and read by aabb_intersection_check agree slot by slot and axis by axis; the box index (global_face_id_) equals the position in face_lst_; registration and look-up use the same quantisation floor((coord-min_axis)/voxel_size); registration loops are inclusive from start to stop voxel in x,y,z; the grid is re-dimensioned with the global extrema of the padded boxes before registration; the look-up applies no filter beyond the documented ones. Given monotonicity of floor these clauses imply that no pair within range is discarded. Also: the padded boxes are computed, stored and compared in double precision; faces are registered in the grid by one thread at a time.",
   note="Floating-point behaviour at voxel borders and the equality with an all-pairs reference as such are not decided. Assumes non-negative cut-offs.",
   ref="DESIGN.md section 4 C06"),
 "C11": dict(
   technique="symbolic store summaries of split_edge/merge_edge prefixes (LF engine), syntactic effect rule on pos_, side-tag dataflow for labels, dominance rules for selectivity",
   text="Decides for all operand values and all six configurations: split_edge conserves p_a+p_b (2/3,2/3,1/3+1/3) and merge_edge gives the new node p_a+p_b; the added node is at the midpoint of the edge's own end nodes; no function in refine_mesh's callee closure mutates pos_ of an existing node; each face created by a split receives the label of the parent triangle on its own side; split/merge/swap are only reached under l2 > l_max^2, l2 < l_min^2 and can_be_merged, score < threshold and the enable flag, with l2 the squared length of that very edge and thresholds the squares of the constructor arguments. Also: refine_mesh's work loop is bounded by its operation counter, every pass pops an edge first, every refilling call is counted, and no counted for-loop of the refinement closure changes its own induction variable; get_triangle_score measures the three distinct edges and returns a longest one in every branch (decided over all weak orderings of the three lengths). Also: the work list of refine_mesh is copied after the swap stage; split / merge happen only while the operation counter is below its bound (also for for(;;) + break).",
   note="Termination of the refinement loop rests on geometry and is not decided; nor are volume/area effects. cell::add_node/replace_node are not opened: the ledgers are on the values handed to them.",
   ref="DESIGN.md section 4 C11"),
 "C20": dict(
   technique="normal forms of the grids' index arithmetic (LF engine) with sibling agreement across uspg_abstract/uspg_3d/uspg_4d instantiations; arithmetic-width rule",
   text="Decides for every instantiated grid class: every voxel flattening is x + y*nx + z*nx*ny with axis-consistent indices and computed in size_t (as is the total voxel count); every quantisation is floor((coord - min_axis)/voxel_size) of the matching axis; update_dimensions assigns counts, origin and extent axis-consistently and sizes the storage with nx*ny*nz; get_grid_content visits [0,n) and get_neighborhood [i-1,i+2) clamped, per axis; every quantised coordinate anywhere in the product (grid classes, store_face_in_uspg, the contact look-ups) is limited to the last voxel of its axis before it addresses a voxel - the count is ceil(extent/size), so floor((max-min)/size) is one past the end whenever the extent is a multiple of the voxel size (found D20, repaired) - or is the open end of a range closed by a limited index, or a node position that the positive box padding keeps inside; the region grid of the polarizer, whose ray marching steps to the next voxel without a bounds test, extends two voxel sizes beyond the node extrema. Also: no guard that survives NDEBUG excludes a face of the declared box; a neighbourhood / content query never answers from a data member kept from an earlier call. The query members are const. All members of both grid templates are analysed (explicit instantiation in a synthetic unit), used by the product or not.",
   note="Decided in real arithmetic on the expression forms; floating-point rounding of the quotient itself (a coordinate within one ulp below a voxel boundary) is not modelled. Geometric completeness of the 27-voxel neighbourhood follows from the loop ranges plus the quantisation form and is argued in DESIGN, not mechanised.",
   ref="DESIGN.md section 4 C20"),
})

CLAIMS.update({
 "C02": dict(
   technique="symbolic ledgers and gradient identities on cell.cpp's force routines (LF engine; |n| handled as an algebraic symbol with L^2 = n.n), hinge-side tag analysis, slot/receiver dataflow, compositional translation typing",
   text="Decides for all operand values: tension/elasticity forces of a face sum to zero, have zero torque and equal (-(tension of that face's type)+elasticity factor)*dA/dx_k with the cached normal being the normalised cross product as computed by update_face_normal_and_area (opened); each node of a face receives normal*pressure_*area/3; get_angle_gradient's three gradients sum to zero, each node receives the slot of its own position from each call and the regularisation forces cancel; in the bending term every product combines normal, cotangent and area of the same face of the hinge and the four hinge nodes receive their own slots; every add_force argument of the routines is translation invariant (arguments of opaque geometric calls included). Also: all four hinge forces carry one common stiffness factor; the forces of one zero-sum ledger are applied under identical guard chains (all or none); no routine of class cell visits the node/face slots [0, live count) (slot-loop lint). Also: a face is skipped by the tension / pressure routines only under a condition that makes its force vanish identically; vec3::get_angle_with is acos of the normalised dot product (range [0, pi]). Also: no force block is skipped for a range of a quantity the force depends on (range guards of the bending / angle forces).",
   note="Zero net force / torque of the pressure and bending terms as a whole are global identities over a closed surface and are not decided; neither is agreement with dV/dx beyond the per-face form, nor rotation equivariance.",
   ref="DESIGN.md section 4 C02"),
})

CLAIMS.update({
 "C04": dict(
   technique="store summaries and clamp-idiom matching (LF engine), call-order and override rules over clang AST",
   text="Decides: update_target_volume is V_t += dt*growth_rate_ then clamp-below on the type's min_vol_; update_pressure is -K*log(V/V_t) then clamp-above on max_pressure_; apply_internal_forces refreshes geometry, area, volume, target volume, pressure and only then applies forces; is_ready_to_divide is false in the base and volume_ >= division_volume_ in epithelial_cell only; each drawn property is clamped to mean +/- 3 std of its own distribution; removal uses volume_ < min_vol_ after the position update, clears the cells, and the population only grows through cell_divider::run; the initial target volume is V*exp(p0/K) followed by update_pressure. Also: the division trigger compares the cell's current volume (not its target volume) with the division volume.",
   note="Behaviour over volume trajectories ('never reappears' over histories, NaN/inf of the logarithm) is not decided; clamps are matched as idioms, branch conditions are not interpreted.",
   ref="DESIGN.md section 4 C04"),
 "C12": dict(
   technique="polynomial identities on the per-face / per-node contributions (LF engine), structural matching of accumulations and running extrema, 3x3 index-layout interpretation of constructor/transpose/get_col",
   text="Decides exact formula clauses: the volume integrand (and the signed-volume sibling in the orientation check) is the scalar triple product of the face's own nodes, volume = |sum|/6, inside-out cells are flipped through a reference; face area = |cross|/2 and normal = normalised cross product; centroid contribution = (x1+x2+x3)/3*area over used faces, divided by area_; area = sum of used faces' areas; the bounding box keeps per-axis running extrema over used nodes from +/-infinity and returns (min xyz, max xyz); the covariance entries accumulate (p_a-c_a)(p_b-c_b) for the matching axes into a symmetric matrix; the index conventions of the mat33 constructor, transpose and get_col compose so that the axis returned when eval[k] dominates is the solver's evec[k] in component order. Also: the signed volume that decides the global flip is summed only after the flood fill has made all windings consistent; volume / centroid / area / bounding box / axis selection are decided on the symbolic value of what is returned, independent of local names and statement forms. Also: the signed-volume sums range over every slot of face_lst_ (not the first get_nb_of_faces() slots). Also: the area sum ranges over the whole face list; the winding flood fill queues the neighbours across all three edges of the seed face and of every face it visits; the Householder prologue, each Givens step and each final reflection of the symmetric 3x3 eigen solver preserves the characteristic polynomial of the tridiagonal matrix (polynomial identity modulo c^2+s^2=1 and the half-angle relation, by Groebner-basis reduction); the reflection applied to the eigenvector matrix (Update0-3, read from their bodies) is the one for which the assigned entries are G^T B G, and eigenvector k is handed over from the column that belongs to eigenvalue k.",
   note="Trusted: the eigen solver's convention evec[k] <-> eval[k]. Frame independence, independence of the element numbering, that the flood fill reaches every face (connectivity), convergence and rounding of the eigen solver are not decided; GetCosSin is assumed to return a unit vector parallel to its arguments.",
   ref="DESIGN.md section 4 C12"),
})

CLAIMS.update({
 "C08": dict(
   technique="qualifier (id-kind) inference over clang AST with declared getter/field kinds; must-pass-through on the structured CFG; phase-order analysis of run_iteration; literal-vs-validation table",
   text="Decides in all six configurations: no comparison, subscript, map key, coupling record or id/index setter mixes persistent cell ids, list indices, node/face indices, global face ids and face-type indices (one reasoned allow-list entry); every population change in run_iteration / cell_divider::run is followed on every path by the renumbering loop; cell ids come only from the post-incremented counter; coupling readers run after the contact model's reset of the same iteration with no population change in between; literal face-type indices used by live code of a cell class are covered by the start-up validation for that class; faces get owner_cell_ = shared_from_this() when adopted or created. Also: no node renumbering (cell::rebase, e.g. through mesh_writer::write) and no conditional skipping of the contact phase between the creation of the couplings and their last reader; the renumbering loops start at position 0 and follow every population change, including the append of the daughters. Also: the id counter is never a by-value copy; the coupling reset runs for every used node; under contact model 2 the key of an inserting coupled_nodes_map_[k] look-up is drawn from that node's own keys. Also: the pairs stored in coupling records carry (cell position index, node id) in that order.",
   note="Liveness of the designated node at use time over arbitrary histories (e.g. a coupled node deleted by remeshing between contact phase and integrator) is not decided. Kinds are declared in a table in the checker.",
   ref="DESIGN.md section 4 C08, section 3 E4"),
})

CLAIMS.update({
 "C18": dict(
   technique="binding-table extraction by dataflow over clang AST (string literal -> get_string_value -> optional -> conversion -> field) compared with frozen reference tables; consumer (who-reads-which-field) table",
   text="Decides for all 31 XML tags: the tag is presence-tested (throwing) before use, converted with the right function, stored in the field of that name, lower-cased/INF-mapped exactly for the two documented tags, and every sign validation tests the field just assigned with the documented comparison; cell and face types are appended in document order; every parameter field is consumed at the site the frozen consumer table names (time step -> integrator and growth, duration -> run loop, sampling period -> save_mesh, edge length -> refiner/divider/contact grid/initial triangulation, swap flag -> refiner, biomechanical fields -> the force routines of the matching kind; repulsive/adhesive contact blocks read repulsion/adherence strength). The binding table is extracted by value flow (tag literal -> optional -> dominating presence test with throw -> conversions -> field, through locals, reference locals, helpers and constant tables), so it is independent of statement order, nesting and splitting into helpers. Also: a mesh cell of type id k is built with the k-th cell type of the parameter file; a validation must not be switched off by another condition; the run loop is bounded by the duration itself. Also: a mem-initializer of the solver does not copy a member that a later initializer sets; sign checks are not dead (made on an unsigned copy); INF is taken on its own branch.",
   note="Reference tables are frozen in the checker from doc/parameter_file_doc.md and the struct definitions; rows added to the reader are tolerated. std::stod's numeric parsing of arbitrary magnitudes is not decided.",
   ref="DESIGN.md section 4 C18, section 3 E5"),
})

CLAIMS.update({
 "C19": dict(
   technique="sibling / table rules over the writers' operator<< chains and mapper table, schedule and file-number rules (LF engine for floor(t/S)+1)",
   text="Decides: in both statistics writers header and rows have the same fixed columns, each followed by the separator, range over the same mapper list (name vs extractor applied to the row's own cell) and end with exactly one newline (per header / per cell row), and the two writers agree; the columns cell_id, type_id, area, volume, target_volume, pressure come from the getter of that quantity and each getter returns the field of that name; statistics are written under iteration_ % 50 == 0 and once after the run loop, iteration_ is incremented exactly once per iteration; save_mesh computes floor(t/S)+1, writes only on change after storing the number, builds the cell-data and face-data paths from that same stored number, hands over the current population, and is the first action of every iteration. Also: no function on the cone of the concurrent file-writing sections formats through a mutable function-local static buffer. The header/row agreement is decided on emission traces (what is written, whether streamed piecewise or assembled in a string). Also: the statistics rows are in the file when write_data returns (local stream, or flush / close).",
   note="K within one of T/S+1 depends on floating-point accumulation of the simulated time and is not decided; neither is parseability of the written files (see C16).",
   ref="DESIGN.md section 4 C19"),
})

CLAIMS.update({
 "C16": dict(
   technique="writer/reader binding-table agreement: string templates of the writer's emissions vs the reader's regex literals, declared-count vs emitting-loop agreement, extracted from clang AST",
   text="Decides table agreement between mesh_writer and mesh_reader: every section line the writer emits (POINTS n float, CELLS a b, CELL_TYPES n, the cell_type_id field header) is matched by the reader's regex for that section, the declared coordinate type is accepted, the %.4e tokens are matched entirely by the reader's number regex and not cut by its end-of-section detector; declared counts agree with the emitting loops (points = sum of node_lst sizes with three coordinates per node, per-cell record 1+4F with literal 3 and get_node_ids() of size 3 plus the cell's own node offset, CELLS/CELL_TYPES counts, data-array lengths, cell_type_id from global_type_id_); the reader requires type 42 and verifies record lengths. Also: mesh overload of write_cell_data: the declared record length sums the node counts of ALL faces. Also: a cell record of the CELLS section is ended by exactly one newline at the level of the loop over the cells (the reader takes every line as one record). Also: every cell is compacted (rebase) before any writer takes counts from it. Also: node ids written for a face are looked up in the face's own cell (no running offset that assumes dense numbering); the reader tries the path exactly as given first.",
   note="Equality of the tissue after a round trip and precision of %.4e are value-level and not decided. Reader regexes are evaluated with Python's re (they only use constructs common to both dialects).",
   ref="DESIGN.md section 4 C16"),
})

CLAIMS.update({
 "C14": dict(
   technique="compositional translation-weight typing (LF engine): symbolic shift of all position-like atoms, affine-weight inference for scalars/vectors, Min/Max and kernel lemmas",
   text="Decides the structural half of C14 in all six configurations: every add_force argument of the cell routines and of the configured contact model (including arguments of opaque geometric calls) has translation weight 0; the kernel outputs have weight 0; integrator displacements have weight 0 and points written by pos_.reset weight 1; nodes added by split/merge have weight 1; both operands of every position-dependent comparison in the refiner, the contact look-up and narrow phase, the box test and the divider's plane tests have equal weights per axis; grid quantisation numerators have weight 0 and face boxes / global extrema weight 1 on their own axis; every running minimum/maximum of coordinates in the product starts from a sentinel on the right side (+inf/max() for minima, -inf/lowest() for maxima; numeric_limits::min() is positive). Also: cell::get_angle_gradient returns vectors of weight 0 on every return path; every term accumulated into the second moments of get_cell_longest_axis has weight 0; the orientation decision is made on the consistently wound surface. Also: in the contact routines every norm / dot / cross product is taken of translation-invariant vectors (no invariance by cancellation of absolute coordinates). Also (contact model 2): an averaged position divides by the number of summands.",
   note="Rounding-level agreement of two runs and the absolute tolerances (almost_equal(x,0), machine-epsilon padding of the grids) are value-level and not decided. Declared exceptions: compute_volume (origin-based), compute_centroid (weight 1). Cached geometric state is treated as invariant (established by C02/C12). Loop-accumulated points (CM 2 averaged positions) are declined.",
   ref="DESIGN.md section 4 C14"),
})

CLAIMS.update({
 "C01": dict(
   technique="path-wise delta counting (Euler ledger) over the structured AST with callee summaries; sibling-branch agreement; permutation-parity rule on the winding decisions; stale-cache effect rule (node-order writers vs normal refreshers) over the call graph",
   text="Decides structural necessary conditions of C01 on every path and in all six configurations: split_edge / merge_edge / swap_edge change the numbers of nodes and faces by (+1,+2) / (-1,-2) / (0,0) on every path (dV - dF/2 = 0, branches agree, early exits precede any change; replace_node summarised from its own body); delete_* reset the element and queue its slot unconditionally, add_* pop-or-append and set id/used flag in both branches; add_face's two branches register the face on the edges (n1,n2),(n2,n3),(n3,n1), refresh normal/area and set the owner, delete_face looks up the same pairs; split_edge's new faces are even/odd permutations of the replaced triangle as tested against the cached normal of the right face; swap_edge winds each new face against a surviving neighbour across one of its own edges; whenever a face's node order may change the cached normal is refreshed before control leaves the mesh classes (found D19); rebase regenerates the edge set whenever something was compacted, renumbers and remaps. Also: swap_edge returns before deleting anything when the edge it would create already exists; edge::hash (the key ordering edge_set_) multiplies node ids in arithmetic that cannot wrap for 32-bit ids. Also: on the work-list copy of an outer edge split_edge exchanges only faces that contain both nodes of that edge. Also: the renumbering and the remapping of node ids in rebase run on every path on which the list was compacted; a guard that skips them must provably (linear integer arithmetic on the sizes) state that every free slot trails the elements that stay.",
   note="Not decided: that every edge stays 2-manifold and the volume positive after arbitrary operation histories, adequacy of can_be_merged's link condition, geometry-dependent orientation (the sign tests themselves). The ledger counts calls, it does not prove they are applied to the right elements.",
   ref="DESIGN.md section 4 C01"),
})

NA_DEFAULT = "checker not finished yet (see DESIGN.md section 4 for the planned clauses)"
NA = {}

def main():
    checks = []
    for p in props:
        pid = p["id"]
        if pid in CLAIMS:
            c = CLAIMS[pid]
            checks.append({
                "property_id": pid,
                "quick_cmd": "./check %s --tier quick" % pid,
                "thorough_cmd": "./check %s --tier thorough" % pid,
                "evidence_file": "/verif/evidence/%s.json" % pid,
                "replay_cmd_template": "./check %s --explain {path}" % pid,
                "engine": "sc3dlint",
                "level_claimed": {"category": "other", "text": c["text"], "design_ref": c["ref"]},
                "level_note": c["note"],
                "technique": c["technique"],
            })
    m = {
        "version": 1,
        "setup_cmd": "make -C /verif/tools",
        "hooks": {"guard": "SIMUCELL3D_VERIF",
                  "enable": "analysis-only: the extractor parses /repo with -DSIMUCELL3D_VERIF -DSIMUCELL3D_VERIF_CONTACT_MODEL_INDEX=<0|1|2> -DSIMUCELL3D_VERIF_DYNAMIC_MODEL_INDEX=<0|1> to select the compile-time configuration; no runtime instrumentation",
                  "baseline_off_cmd": "/verif/tools/baseline_off.sh",
                  "source_commits": ["cbbb50f"],
                  "add_only": True},
        "engines": [
            {"name": "sc3d-extract", "path": "tools/sc3d-extract.cc", "serves_properties": sorted(CLAIMS), "kind_free_text": "libTooling serialiser of clang's resolved AST (rule-free)"},
            {"name": "sc3dlint", "path": "sc3dlint/", "serves_properties": sorted(CLAIMS), "kind_free_text": "Python static-analysis engines: structured CFG, call graph + CHA, E1 container invalidation, E2 exceptions, effects/E6 OpenMP regions, E3 symbolic normal forms (sympy), E7/E8 class and initialisation rules"},
        ],
        "checks": checks,
        "notes": "Static analysis only (DESIGN.md). exit 0 = all rule instances held; exit 1 = VIOLATION lines; exit 2 = analysis broken (no verdict). Known findings: /verif/known_findings.json.",
        "not_applicable": [{"property_id": p["id"], "reason": NA.get(p["id"], NA_DEFAULT)} for p in props if p["id"] not in CLAIMS],
    }
    json.dump(m, open(os.path.join(HERE, "MANIFEST.json"), "w"), indent=1)
    print("claims:", sorted(CLAIMS), "n/a:", len(m["not_applicable"]))

if __name__ == "__main__":
    main()
