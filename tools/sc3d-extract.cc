// sc3d-extract: rule-free serialiser of clang's resolved AST for the functions and
// classes that live in the repository. It is the only C++ part of the checker:
// it encodes no property; it only writes down what clang's parser/sema resolved
// (callee of every call, referenced declaration of every name, canonical types,
// OpenMP directives and clauses, exception specifications, class hierarchy).
//
// usage: sc3d-extract <root> <out.json> <file.cpp> -- <compile flags...>
//
// Build: see Makefile (clang++ $(llvm-config-14 --cxxflags) -fno-rtti ... libclang-cpp.so.14)

#include "clang/AST/ASTConsumer.h"
#include "clang/AST/ASTContext.h"
#include "clang/AST/DeclCXX.h"
#include "clang/AST/DeclTemplate.h"
#include "clang/AST/ExprCXX.h"
#include "clang/AST/ExprOpenMP.h"
#include "clang/AST/OpenMPClause.h"
#include "clang/AST/RecursiveASTVisitor.h"
#include "clang/AST/StmtCXX.h"
#include "clang/AST/StmtOpenMP.h"
#include "clang/Basic/SourceManager.h"
#include "clang/Frontend/CompilerInstance.h"
#include "clang/Frontend/FrontendAction.h"
#include "clang/Lex/Preprocessor.h"
#include "clang/Lex/MacroInfo.h"
#include "clang/Frontend/TextDiagnosticBuffer.h"
#include "clang/Tooling/CompilationDatabase.h"
#include "clang/Tooling/Tooling.h"
#include "llvm/Support/JSON.h"
#include "llvm/Support/raw_ostream.h"
#include <map>
#include <set>
#include <string>

using namespace clang;
namespace json = llvm::json;

static std::string g_root;     // only declarations located under this prefix are dumped
static std::string g_out;

namespace {

struct Diag { std::string level, msg, file; unsigned line; };
static std::vector<Diag> g_diags;

class CollectDiags : public DiagnosticConsumer {
public:
  void HandleDiagnostic(DiagnosticsEngine::Level L, const Diagnostic &Info) override {
    DiagnosticConsumer::HandleDiagnostic(L, Info);
    if (L < DiagnosticsEngine::Error) return;
    llvm::SmallString<256> buf;
    Info.FormatDiagnostic(buf);
    Diag d;
    d.level = (L == DiagnosticsEngine::Fatal) ? "fatal" : "error";
    d.msg = std::string(buf.str());
    d.line = 0;
    if (Info.hasSourceManager() && Info.getLocation().isValid()) {
      const SourceManager &SM = Info.getSourceManager();
      PresumedLoc P = SM.getPresumedLoc(SM.getExpansionLoc(Info.getLocation()));
      if (P.isValid()) { d.file = P.getFilename(); d.line = P.getLine(); }
    }
    g_diags.push_back(d);
  }
};

class Dumper {
  ASTContext &Ctx;
  const SourceManager &SM;
  PrintingPolicy PP;
  std::map<const Decl *, unsigned> ids;
  unsigned nextId = 1;

public:
  Dumper(ASTContext &C) : Ctx(C), SM(C.getSourceManager()), PP(C.getLangOpts()) {
    PP.SuppressTagKeyword = true;
    PP.Bool = true;
    PP.SuppressUnwrittenScope = true;
    PP.TerseOutput = true;
    PP.FullyQualifiedName = true;
  }

  unsigned id(const Decl *D) {
    if (!D) return 0;
    D = D->getCanonicalDecl();
    auto it = ids.find(D);
    if (it != ids.end()) return it->second;
    return ids[D] = nextId++;
  }

  std::string ty(QualType T) {
    if (T.isNull()) return "";
    return T.getCanonicalType().getAsString(PP);
  }
  std::string tyw(QualType T) {  // as written (keeps typedef names such as cell_ptr)
    if (T.isNull()) return "";
    return T.getAsString(PP);
  }

  std::string fileOf(SourceLocation L) {
    if (L.isInvalid()) return "";
    PresumedLoc P = SM.getPresumedLoc(SM.getExpansionLoc(L));
    if (!P.isValid()) return "";
    std::string f = P.getFilename();
    // normalise a/b/../c
    llvm::SmallString<256> s(f);
    llvm::sys::path::remove_dots(s, true);
    return std::string(s.str());
  }
  unsigned lineOf(SourceLocation L) {
    if (L.isInvalid()) return 0;
    PresumedLoc P = SM.getPresumedLoc(SM.getExpansionLoc(L));
    return P.isValid() ? P.getLine() : 0;
  }
  bool inRoot(SourceLocation L) {
    std::string f = fileOf(L);
    return f.compare(0, g_root.size(), g_root) == 0;
  }

  std::string qn(const NamedDecl *D) {
    if (!D) return "";
    std::string s;
    llvm::raw_string_ostream os(s);
    D->printQualifiedName(os, PP);
    return os.str();
  }

  // A signature key that identifies a function across translation units.
  std::string fkey(const FunctionDecl *F) {
    std::string s;
    llvm::raw_string_ostream os(s);
    F->printQualifiedName(os, PP);
    if (const TemplateArgumentList *TA = F->getTemplateSpecializationArgs()) {
      printTemplateArgumentList(os, TA->asArray(), PP);
    }
    os << "(";
    bool first = true;
    for (const ParmVarDecl *P : F->parameters()) {
      if (!first) os << ",";
      first = false;
      os << ty(P->getType());
    }
    os << ")";
    if (const auto *M = dyn_cast<CXXMethodDecl>(F))
      if (M->isConst()) os << " const";
    return os.str();
  }

  bool isNoexcept(const FunctionDecl *F) {
    const auto *FPT = F->getType()->getAs<FunctionProtoType>();
    if (!FPT) return false;
    if (isUnresolvedExceptionSpec(FPT->getExceptionSpecType())) return false;
    return FPT->isNothrow();
  }

  json::Object declRef(const ValueDecl *D) {
    json::Object o;
    if (!D) return o;
    o["name"] = D->getNameAsString();
    o["did"] = id(D);
    o["dk"] = D->getDeclKindName();
    if (const auto *F = dyn_cast<FunctionDecl>(D)) {
      o["qn"] = qn(F);
      o["key"] = fkey(F);
    } else if (isa<FieldDecl>(D) || isa<EnumConstantDecl>(D)) {
      o["qn"] = qn(D);
    } else if (const auto *V = dyn_cast<VarDecl>(D)) {
      if (!V->isLocalVarDeclOrParm()) o["qn"] = qn(V);
      else if (V->isStaticLocal()) o["static_local"] = true;
    }
    return o;
  }

  json::Object varDecl(const VarDecl *V) {
    json::Object o;
    o["k"] = V->getDeclKindName();
    o["name"] = V->getNameAsString();
    o["did"] = id(V);
    o["t"] = ty(V->getType());
    o["tw"] = tyw(V->getType());
    o["l"] = lineOf(V->getLocation());
    if (!V->isLocalVarDeclOrParm()) o["file"] = fileOf(V->getLocation());
    if (V->isStaticLocal()) o["static_local"] = true;
    if (V->hasInit()) o["init"] = stmt(V->getInit());
    if (const auto *DD = dyn_cast<DecompositionDecl>(V)) {
      json::Array bs;
      for (const BindingDecl *B : DD->bindings()) {
        json::Object b;
        b["name"] = B->getNameAsString();
        b["did"] = id(B);
        b["t"] = ty(B->getType());
        if (B->getBinding()) b["binding"] = stmt(B->getBinding());
        bs.push_back(std::move(b));
      }
      o["bindings"] = std::move(bs);
    }
    return o;
  }

  json::Value opt(const Stmt *S) {
    if (!S) return nullptr;
    return stmt(S);
  }

  json::Object clauseObj(const OMPClause *C) {
    json::Object o;
    o["kind"] = llvm::omp::getOpenMPClauseName(C->getClauseKind()).str();
    json::Array vars;
    auto addVars = [&](auto *VC) {
      for (const Expr *E : VC->varlists()) {
        E = E->IgnoreParenImpCasts();
        if (const auto *DRE = dyn_cast<DeclRefExpr>(E)) vars.push_back(declRef(DRE->getDecl()));
        else vars.push_back(stmt(E));
      }
    };
    if (auto *X = dyn_cast<OMPPrivateClause>(C)) addVars(X);
    else if (auto *X = dyn_cast<OMPFirstprivateClause>(C)) addVars(X);
    else if (auto *X = dyn_cast<OMPLastprivateClause>(C)) addVars(X);
    else if (auto *X = dyn_cast<OMPSharedClause>(C)) addVars(X);
    else if (auto *X = dyn_cast<OMPReductionClause>(C)) addVars(X);
    else if (auto *X = dyn_cast<OMPNumThreadsClause>(C)) o["expr"] = stmt(X->getNumThreads());
    else if (auto *X = dyn_cast<OMPIfClause>(C)) o["expr"] = stmt(X->getCondition());
    else if (auto *X = dyn_cast<OMPScheduleClause>(C)) o["schedule"] = (int)X->getScheduleKind();
    else if (auto *X = dyn_cast<OMPDefaultClause>(C)) o["default"] = (int)X->getDefaultKind();
    o["vars"] = std::move(vars);
    return o;
  }

  json::Object stmt(const Stmt *S) {
    json::Object o;
    if (!S) { o["k"] = "Null"; return o; }
    o["k"] = S->getStmtClassName();
    o["l"] = lineOf(S->getBeginLoc());

    if (const auto *E = dyn_cast<Expr>(S)) {
      o["t"] = ty(E->getType());
      if (E->isLValue()) o["vc"] = "l";
      else if (E->isXValue()) o["vc"] = "x";
    }

    // ---- nodes with named parts -------------------------------------------
    if (const auto *X = dyn_cast<CXXForRangeStmt>(S)) {
      o["var"] = varDecl(X->getLoopVariable());
      o["range"] = stmt(X->getRangeInit());
      o["body"] = stmt(X->getBody());
      return o;
    }
    if (const auto *X = dyn_cast<ForStmt>(S)) {
      o["init"] = opt(X->getInit());
      o["cond"] = opt(X->getCond());
      o["inc"] = opt(X->getInc());
      o["body"] = stmt(X->getBody());
      return o;
    }
    if (const auto *X = dyn_cast<WhileStmt>(S)) {
      o["cond"] = stmt(X->getCond());
      o["body"] = stmt(X->getBody());
      return o;
    }
    if (const auto *X = dyn_cast<DoStmt>(S)) {
      o["cond"] = stmt(X->getCond());
      o["body"] = stmt(X->getBody());
      return o;
    }
    if (const auto *X = dyn_cast<IfStmt>(S)) {
      if (X->getInit()) o["init"] = stmt(X->getInit());
      if (X->getConditionVariable()) o["condvar"] = varDecl(X->getConditionVariable());
      o["cond"] = stmt(X->getCond());
      o["then"] = stmt(X->getThen());
      o["else"] = opt(X->getElse());
      if (X->isConstexpr()) o["constexpr"] = true;
      return o;
    }
    if (const auto *X = dyn_cast<SwitchStmt>(S)) {
      o["cond"] = stmt(X->getCond());
      o["body"] = stmt(X->getBody());
      return o;
    }
    if (const auto *X = dyn_cast<CaseStmt>(S)) {
      o["value"] = stmt(X->getLHS());
      o["sub"] = stmt(X->getSubStmt());
      return o;
    }
    if (const auto *X = dyn_cast<DefaultStmt>(S)) {
      o["sub"] = stmt(X->getSubStmt());
      return o;
    }
    if (const auto *X = dyn_cast<ReturnStmt>(S)) {
      o["value"] = opt(X->getRetValue());
      return o;
    }
    if (const auto *X = dyn_cast<CXXTryStmt>(S)) {
      o["block"] = stmt(X->getTryBlock());
      json::Array hs;
      for (unsigned i = 0; i < X->getNumHandlers(); ++i) {
        const CXXCatchStmt *H = X->getHandler(i);
        json::Object h;
        h["k"] = "CXXCatchStmt";
        h["l"] = lineOf(H->getBeginLoc());
        if (H->getExceptionDecl()) {
          h["type"] = ty(H->getCaughtType().getNonReferenceType().getUnqualifiedType());
          h["var"] = varDecl(H->getExceptionDecl());
        } else {
          h["type"] = "...";
        }
        h["body"] = stmt(H->getHandlerBlock());
        hs.push_back(std::move(h));
      }
      o["handlers"] = std::move(hs);
      return o;
    }
    if (const auto *X = dyn_cast<DeclStmt>(S)) {
      json::Array ds;
      for (const Decl *D : X->decls()) {
        if (const auto *V = dyn_cast<VarDecl>(D)) ds.push_back(varDecl(V));
        else {
          json::Object d;
          d["k"] = D->getDeclKindName();
          ds.push_back(std::move(d));
        }
      }
      o["decls"] = std::move(ds);
      return o;
    }
    if (const auto *X = dyn_cast<LambdaExpr>(S)) {
      json::Array caps;
      for (const LambdaCapture &C : X->captures()) {
        json::Object c;
        if (C.capturesThis()) c["this"] = true;
        else if (C.capturesVariable()) {
          c["name"] = C.getCapturedVar()->getNameAsString();
          c["did"] = id(C.getCapturedVar());
          c["t"] = ty(C.getCapturedVar()->getType());
        }
        c["byref"] = C.getCaptureKind() == LCK_ByRef;
        c["implicit"] = C.isImplicit();
        caps.push_back(std::move(c));
      }
      o["captures"] = std::move(caps);
      if (const CXXMethodDecl *M = X->getCallOperator()) {
        json::Array ps;
        for (const ParmVarDecl *P : M->parameters()) {
          json::Object p;
          p["name"] = P->getNameAsString();
          p["did"] = id(P);
          p["t"] = ty(P->getType());
          ps.push_back(std::move(p));
        }
        o["params"] = std::move(ps);
        o["noexcept"] = isNoexcept(M);
        o["ret"] = ty(M->getReturnType());
      }
      o["body"] = stmt(X->getBody());
      return o;
    }
    if (const auto *X = dyn_cast<OMPExecutableDirective>(S)) {
      o["omp"] = llvm::omp::getOpenMPDirectiveName(X->getDirectiveKind()).str();
      json::Array cs;
      for (const OMPClause *C : X->clauses()) cs.push_back(clauseObj(C));
      o["clauses"] = std::move(cs);
      if (const auto *CR = dyn_cast<OMPCriticalDirective>(X))
        o["name"] = CR->getDirectiveName().getAsString();
      if (X->hasAssociatedStmt()) {
        const Stmt *A = X->getAssociatedStmt();
        while (const auto *CS = dyn_cast_or_null<CapturedStmt>(A)) A = CS->getCapturedStmt();
        o["body"] = stmt(A);
      }
      return o;
    }
    if (const auto *X = dyn_cast<CapturedStmt>(S)) {
      o["body"] = stmt(X->getCapturedStmt());
      return o;
    }

    // ---- expressions with attributes; children are emitted generically -----
    if (const auto *X = dyn_cast<DeclRefExpr>(S)) {
      o["ref"] = declRef(X->getDecl());
      if (X->refersToEnclosingVariableOrCapture()) o["captured"] = true;
    } else if (const auto *X = dyn_cast<MemberExpr>(S)) {
      o["ref"] = declRef(X->getMemberDecl());
      o["arrow"] = X->isArrow();
      if (X->hasQualifier()) o["qualified"] = true;
    } else if (const auto *X = dyn_cast<CXXOperatorCallExpr>(S)) {
      o["op"] = getOperatorSpelling(X->getOperator());
      if (const FunctionDecl *F = X->getDirectCallee()) {
        o["callee"] = qn(F); o["ckey"] = fkey(F); o["cnoexcept"] = isNoexcept(F);
        o["cmember"] = isa<CXXMethodDecl>(F);
      }
    } else if (const auto *X = dyn_cast<CXXMemberCallExpr>(S)) {
      if (const CXXMethodDecl *M = X->getMethodDecl()) {
        o["callee"] = qn(M); o["ckey"] = fkey(M); o["cnoexcept"] = isNoexcept(M);
        o["cconst"] = M->isConst();
        bool virt = M->isVirtual();
        if (const auto *ME = dyn_cast<MemberExpr>(X->getCallee()->IgnoreParens()))
          if (ME->hasQualifier()) virt = false;
        o["virtual"] = virt;
        if (X->getRecordDecl()) o["ccls"] = qn(X->getRecordDecl());
      }
    } else if (const auto *X = dyn_cast<CallExpr>(S)) {
      if (const FunctionDecl *F = X->getDirectCallee()) {
        o["callee"] = qn(F); o["ckey"] = fkey(F); o["cnoexcept"] = isNoexcept(F);
      }
    } else if (const auto *X = dyn_cast<CXXConstructExpr>(S)) {
      const CXXConstructorDecl *C = X->getConstructor();
      o["callee"] = qn(C); o["ckey"] = fkey(C); o["cnoexcept"] = isNoexcept(C);
      o["cls"] = qn(C->getParent());
      if (X->isElidable()) o["elidable"] = true;
      if (C->isCopyConstructor()) o["copy"] = true;
      if (C->isMoveConstructor()) o["move"] = true;
    } else if (const auto *X = dyn_cast<CXXNewExpr>(S)) {
      o["alloc_t"] = ty(X->getAllocatedType());
      if (X->isArray()) o["array"] = true;
    } else if (const auto *X = dyn_cast<CXXDeleteExpr>(S)) {
      o["destroyed_t"] = ty(X->getDestroyedType());
      if (X->isArrayForm()) o["array"] = true;
    } else if (const auto *X = dyn_cast<BinaryOperator>(S)) {
      o["op"] = X->getOpcodeStr().str();
    } else if (const auto *X = dyn_cast<UnaryOperator>(S)) {
      o["op"] = UnaryOperator::getOpcodeStr(X->getOpcode()).str();
      o["postfix"] = X->isPostfix();
    } else if (const auto *X = dyn_cast<IntegerLiteral>(S)) {
      llvm::SmallString<32> s;
      X->getValue().toString(s, 10, X->getType()->isSignedIntegerType());
      o["v"] = std::string(s.str());
    } else if (const auto *X = dyn_cast<FloatingLiteral>(S)) {
      llvm::SmallString<32> s;
      X->getValue().toString(s);
      o["v"] = std::string(s.str());
    } else if (const auto *X = dyn_cast<StringLiteral>(S)) {
      if (X->isAscii() || X->isUTF8()) o["v"] = X->getString().str();
    } else if (const auto *X = dyn_cast<CXXBoolLiteralExpr>(S)) {
      o["v"] = X->getValue();
    } else if (const auto *X = dyn_cast<CharacterLiteral>(S)) {
      o["v"] = (int64_t)X->getValue();
    } else if (const auto *X = dyn_cast<CastExpr>(S)) {
      o["ck"] = X->getCastKindName();
      if (const auto *EC = dyn_cast<ExplicitCastExpr>(X)) o["tw"] = tyw(EC->getTypeAsWritten());
    } else if (const auto *X = dyn_cast<CXXDependentScopeMemberExpr>(S)) {
      o["member"] = X->getMember().getAsString();
    } else if (const auto *X = dyn_cast<CXXThrowExpr>(S)) {
      if (X->getSubExpr())
        o["thrown_t"] = ty(X->getSubExpr()->getType().getNonReferenceType().getUnqualifiedType());
      else
        o["rethrow"] = true;
    } else if (const auto *X = dyn_cast<UnaryExprOrTypeTraitExpr>(S)) {
      o["trait"] = (int)X->getKind();
      if (X->isArgumentType()) o["arg_t"] = ty(X->getArgumentType());
    } else if (const auto *X = dyn_cast<CXXDefaultArgExpr>(S)) {
      o["default_arg"] = stmt(X->getExpr());
      return o;
    } else if (const auto *X = dyn_cast<CXXDefaultInitExpr>(S)) {
      if (X->getField()) o["field"] = qn(X->getField());
      return o;
    } else if (const auto *X = dyn_cast<InitListExpr>(S)) {
      if (X->isSemanticForm() && X->getSyntacticForm()) { /* keep semantic */ }
    } else if (const auto *X = dyn_cast<CXXTemporaryObjectExpr>(S)) {
      (void)X;
    } else if (const auto *X = dyn_cast<OpaqueValueExpr>(S)) {
      if (X->getSourceExpr()) { o["source"] = stmt(X->getSourceExpr()); }
      return o;
    }

    json::Array cs;
    for (const Stmt *C : S->children()) {
      if (!C) { json::Object n; n["k"] = "Null"; cs.push_back(std::move(n)); continue; }
      cs.push_back(stmt(C));
    }
    if (!cs.empty()) o["c"] = std::move(cs);
    return o;
  }

  json::Object function(const FunctionDecl *F) {
    json::Object o;
    o["qn"] = qn(F);
    o["key"] = fkey(F);
    o["name"] = F->getNameAsString();
    o["file"] = fileOf(F->getLocation());
    o["line"] = lineOf(F->getBeginLoc());
    o["endline"] = lineOf(F->getEndLoc());
    o["ret"] = ty(F->getReturnType());
    o["noexcept"] = isNoexcept(F);
    o["did"] = id(F);
    if (F->isTemplateInstantiation()) o["instantiation"] = true;
    json::Array ps;
    for (const ParmVarDecl *P : F->parameters()) {
      json::Object p;
      p["name"] = P->getNameAsString();
      p["did"] = id(P);
      p["t"] = ty(P->getType());
      p["tw"] = tyw(P->getType());
      ps.push_back(std::move(p));
    }
    o["params"] = std::move(ps);
    if (const auto *M = dyn_cast<CXXMethodDecl>(F)) {
      o["cls"] = qn(M->getParent());
      o["const"] = M->isConst();
      o["virtual"] = M->isVirtual();
      o["static"] = M->isStatic();
      if (M->getParent()->isLambda()) o["lambda_op"] = true;
      json::Array ov;
      for (const CXXMethodDecl *B : M->overridden_methods()) ov.push_back(fkey(B));
      o["overrides"] = std::move(ov);
    }
    if (const auto *C = dyn_cast<CXXConstructorDecl>(F)) {
      o["ctor"] = true;
      json::Array inits;
      for (const CXXCtorInitializer *I : C->inits()) {
        json::Object i;
        if (I->isAnyMemberInitializer()) {
          i["member"] = qn(I->getAnyMember());
          i["name"] = I->getAnyMember()->getNameAsString();
        } else if (I->isBaseInitializer()) {
          i["base"] = ty(QualType(I->getBaseClass(), 0));
        } else if (I->isDelegatingInitializer()) {
          i["delegating"] = true;
        }
        i["written"] = I->isWritten();
        i["l"] = lineOf(I->getSourceLocation());
        if (I->getInit()) i["init"] = stmt(I->getInit());
        inits.push_back(std::move(i));
      }
      o["inits"] = std::move(inits);
    }
    if (isa<CXXDestructorDecl>(F)) o["dtor"] = true;
    if (F->isDefaulted()) o["defaulted"] = true;
    o["body"] = stmt(F->getBody());
    return o;
  }

  json::Object record(const CXXRecordDecl *R) {
    json::Object o;
    o["qn"] = qn(R);
    o["file"] = fileOf(R->getLocation());
    o["line"] = lineOf(R->getLocation());
    o["polymorphic"] = R->isPolymorphic();
    o["abstract"] = R->isAbstract();
    if (isa<ClassTemplateSpecializationDecl>(R)) o["instantiation"] = true;
    json::Array bases;
    for (const CXXBaseSpecifier &B : R->bases()) {
      json::Object b;
      b["t"] = ty(B.getType());
      if (const CXXRecordDecl *BD = B.getType()->getAsCXXRecordDecl()) b["qn"] = qn(BD);
      b["virtual"] = B.isVirtual();
      b["access"] = (int)B.getAccessSpecifier();
      bases.push_back(std::move(b));
    }
    o["bases"] = std::move(bases);
    json::Object d;
    if (const CXXDestructorDecl *D = R->getDestructor()) {
      d["declared"] = true;
      d["user_provided"] = D->isUserProvided();
      d["implicit"] = D->isImplicit();
      d["virtual"] = D->isVirtual();
      d["line"] = lineOf(D->getLocation());
    } else {
      d["declared"] = false;
      d["virtual"] = false;  // an undeclared implicit destructor is virtual only if a base's is
      for (const CXXBaseSpecifier &B : R->bases())
        if (const CXXRecordDecl *BD = B.getType()->getAsCXXRecordDecl())
          if (const CXXDestructorDecl *BDt = BD->getDestructor())
            if (BDt->isVirtual()) d["virtual"] = true;
    }
    o["dtor"] = std::move(d);
    json::Array fields;
    for (const FieldDecl *F : R->fields()) {
      json::Object f;
      f["name"] = F->getNameAsString();
      f["qn"] = qn(F);
      f["did"] = id(F);
      f["t"] = ty(F->getType());
      f["tw"] = tyw(F->getType());
      f["l"] = lineOf(F->getLocation());
      f["access"] = (int)F->getAccess();
      if (F->hasInClassInitializer() && F->getInClassInitializer())
        f["init"] = stmt(F->getInClassInitializer());
      fields.push_back(std::move(f));
    }
    o["fields"] = std::move(fields);
    json::Array statics;
    for (const Decl *D : R->decls())
      if (const auto *V = dyn_cast<VarDecl>(D)) {
        json::Object f;
        f["name"] = V->getNameAsString();
        f["qn"] = qn(V);
        f["t"] = ty(V->getType());
        f["l"] = lineOf(V->getLocation());
        f["constexpr"] = V->isConstexpr();
        if (const VarDecl *Def = V->getDefinition())
          if (Def->hasInit()) f["init"] = stmt(Def->getInit());
        if (!f.get("init") && V->hasInit()) f["init"] = stmt(V->getInit());
        statics.push_back(std::move(f));
      }
    o["statics"] = std::move(statics);
    json::Array methods;
    for (const CXXMethodDecl *M : R->methods()) {
      json::Object m;
      m["name"] = M->getNameAsString();
      m["key"] = fkey(M);
      m["virtual"] = M->isVirtual();
      m["pure"] = M->isPure();
      m["const"] = M->isConst();
      m["noexcept"] = isNoexcept(M);
      m["implicit"] = M->isImplicit();
      m["deleted"] = M->isDeleted();
      m["defaulted"] = M->isDefaulted();
      m["ret"] = ty(M->getReturnType());
      m["l"] = lineOf(M->getLocation());
      if (isa<CXXConstructorDecl>(M)) m["ctor"] = true;
      if (isa<CXXDestructorDecl>(M)) m["dtor"] = true;
      json::Array ov;
      for (const CXXMethodDecl *B : M->overridden_methods()) ov.push_back(fkey(B));
      m["overrides"] = std::move(ov);
      methods.push_back(std::move(m));
    }
    o["methods"] = std::move(methods);
    return o;
  }
};

class Visitor : public RecursiveASTVisitor<Visitor> {
  Dumper &D;
  json::Array &funcs, &records, &globals;
  std::set<const Decl *> seen;

public:
  Visitor(Dumper &d, json::Array &f, json::Array &r, json::Array &g)
      : D(d), funcs(f), records(r), globals(g) {}
  bool shouldVisitTemplateInstantiations() const { return true; }
  bool shouldVisitImplicitCode() const { return false; }
  bool shouldVisitLambdaBody() const { return false; }  // lambdas are nested in their parent

  bool VisitFunctionDecl(FunctionDecl *F) {
    if (!F->doesThisDeclarationHaveABody()) return true;
    if (F->isDependentContext()) return true;
    if (!D.inRoot(F->getLocation())) return true;
    if (const auto *M = dyn_cast<CXXMethodDecl>(F))
      if (M->getParent()->isLambda()) return true;
    if (!seen.insert(F).second) return true;
    funcs.push_back(D.function(F));
    return true;
  }
  bool VisitCXXRecordDecl(CXXRecordDecl *R) {
    if (!R->isThisDeclarationADefinition()) return true;
    if (R->isDependentContext() || R->isLambda()) return true;
    if (!D.inRoot(R->getLocation())) return true;
    if (!seen.insert(R).second) return true;
    records.push_back(D.record(R));
    return true;
  }
  bool VisitVarDecl(VarDecl *V) {
    if (V->isLocalVarDeclOrParm() || isa<ParmVarDecl>(V)) return true;
    if (V->getDeclContext()->isDependentContext()) return true;
    if (V->isCXXClassMember()) return true;
    if (!V->isThisDeclarationADefinition()) return true;
    if (!D.inRoot(V->getLocation())) return true;
    if (!seen.insert(V).second) return true;
    globals.push_back(D.varDecl(V));
    return true;
  }
};

class Consumer : public ASTConsumer {
  CompilerInstance &CI;
public:
  Consumer(CompilerInstance &ci) : CI(ci) {}
  void HandleTranslationUnit(ASTContext &Ctx) override {
    Dumper D(Ctx);
    json::Array funcs, records, globals;
    Visitor V(D, funcs, records, globals);
    V.TraverseDecl(Ctx.getTranslationUnitDecl());
    json::Object top;
    const SourceManager &SM = Ctx.getSourceManager();
    if (const FileEntry *FE = SM.getFileEntryForID(SM.getMainFileID()))
      top["tu"] = FE->getName().str();
    json::Array ds;
    for (const Diag &d : g_diags) {
      json::Object o;
      o["level"] = d.level; o["msg"] = d.msg; o["file"] = d.file; o["line"] = d.line;
      ds.push_back(std::move(o));
    }
    top["diagnostics"] = std::move(ds);
    // object-like macros defined in repository files, with their final token text
    // (lets the loader verify which compile-time configuration was really parsed)
    json::Object macros;
    Preprocessor &PPr = CI.getPreprocessor();
    for (const auto &M : PPr.macros()) {
      const IdentifierInfo *II = M.first;
      const MacroInfo *MI = PPr.getMacroInfo(II);
      if (!MI || MI->isFunctionLike() || MI->isBuiltinMacro()) continue;
      if (MI->getDefinitionLoc().isInvalid()) continue;
      std::string text;
      for (const Token &T : MI->tokens()) {
        if (!text.empty()) text += " ";
        text += PPr.getSpelling(T);
      }
      PresumedLoc P = SM.getPresumedLoc(SM.getExpansionLoc(MI->getDefinitionLoc()));
      bool inroot = P.isValid() && std::string(P.getFilename()).compare(0, g_root.size(), g_root) == 0;
      bool cmdline = P.isValid() && std::string(P.getFilename()) == "<command line>";
      if (!inroot && !cmdline) continue;
      macros[II->getName()] = text;
    }
    top["macros"] = std::move(macros);
    top["functions"] = std::move(funcs);
    top["records"] = std::move(records);
    top["globals"] = std::move(globals);
    std::error_code EC;
    llvm::raw_fd_ostream OS(g_out, EC);
    if (EC) { llvm::errs() << "cannot write " << g_out << "\n"; exit(3); }
    OS << json::Value(std::move(top));
    OS << "\n";
  }
};

class Action : public ASTFrontendAction {
public:
  std::unique_ptr<ASTConsumer> CreateASTConsumer(CompilerInstance &CI, StringRef) override {
    CI.getDiagnostics().setClient(new CollectDiags(), true);
    return std::make_unique<Consumer>(CI);
  }
};

} // namespace

int main(int argc, const char **argv) {
  if (argc < 5) {
    llvm::errs() << "usage: sc3d-extract <root> <out.json> <file.cpp> -- <flags>\n";
    return 2;
  }
  g_root = argv[1];
  g_out = argv[2];
  std::string file = argv[3];
  int dd = 4;
  while (dd < argc && std::string(argv[dd]) != "--") ++dd;
  std::vector<std::string> flags;
  for (int i = dd + 1; i < argc; ++i) flags.push_back(argv[i]);
  clang::tooling::FixedCompilationDatabase DB(".", flags);
  clang::tooling::ClangTool Tool(DB, {file});
  int rc = Tool.run(clang::tooling::newFrontendActionFactory<Action>().get());
  // rc != 0 when clang reported errors; the JSON (with diagnostics) is still written and
  // the loader decides which diagnostics are tolerable.
  (void)rc;
  return 0;
}
