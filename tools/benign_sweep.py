#!/usr/bin/env python3
"""Development helper (not a registered check): runs every registered check (quick tier; thorough for the property the
refactoring was written for) against behaviour-preserving refactorings kept under /verif/benign/<P>-<k>/patch.diff, in a
scratch worktree of /repo (SC3D_REPO). Any non-zero exit is a false alarm (exit 1) or a brittle anchor (exit 2) of the
machinery. Writes result.json next to each patch.
usage: benign_sweep.py [ids...]      env: SWEEP_W=/tmp/benignrun"""
import json, os, subprocess, sys, re, glob
VERIF = os.path.dirname(os.path.dirname(os.path.abspath(__file__)))
W = os.environ.get("SWEEP_W", "/tmp/benignrun")
EV = W + "_evidence"
manifest = json.load(open(os.path.join(VERIF, "MANIFEST.json")))
checks = [c["property_id"] for c in manifest["checks"]]


def sh(cmd, **kw):
    return subprocess.run(cmd, shell=True, stdout=subprocess.PIPE, stderr=subprocess.STDOUT, text=True, **kw)


def main():
    ids = sys.argv[1:] or sorted(os.path.basename(d) for d in glob.glob(os.path.join(VERIF, "benign", "*")) if os.path.exists(os.path.join(d, "patch.diff")))
    if not os.path.isdir(W):
        sh("git -C /repo worktree add --detach %s HEAD" % W)
    sh("git -C %s checkout -q --detach $(git -C /repo rev-parse HEAD); git -C %s checkout -- ." % (W, W))
    os.makedirs(EV, exist_ok=True)
    env = dict(os.environ, SC3D_REPO=W, SC3D_EVIDENCE_DIR=EV)
    only = [c for c in os.environ.get("SWEEP_ONLY", "").split(",") if c]
    for sid in ids:
        d = os.path.join(VERIF, "benign", sid)
        prop = sid.split("-")[0]
        r = sh("git -C %s apply %s/patch.diff" % (W, d))
        if r.returncode != 0:
            print(sid, "PATCH DOES NOT APPLY", r.stdout[-300:], flush=True)
            continue
        alarms = {}
        for c in (only or checks):
            tier = "thorough" if c == prop else "quick"
            p = sh("cd %s && ./check %s --tier %s" % (VERIF, c, tier), env=env)
            if p.returncode != 0:
                lines = [l for l in p.stdout.splitlines() if re.search(r"rule=|ANALYSIS-BROKEN", l)]
                alarms[c] = {"rc": p.returncode, "lines": [l.strip()[:300] for l in lines[:6]]}
        sh("git -C %s checkout -- ." % W)
        json.dump({"id": sid, "written_for": prop, "alarms": alarms, "repo_head": sh("git -C /repo rev-parse --short HEAD").stdout.strip()},
                  open(os.path.join(d, "result.json"), "w"), indent=1)
        print(sid, "->", "SILENT" if not alarms else json.dumps(alarms)[:1500], flush=True)


if __name__ == "__main__":
    main()
