#!/bin/sh
# usage: try_mutant.sh <file-relative-to-repo> <sed expression> <PROP> [tier]   (development helper: applies, checks, reverts)
f=/repo/$1; cp "$f" /tmp/.mut_backup.$$
sed -i "$2" "$f"
if cmp -s "$f" /tmp/.mut_backup.$$; then echo "MUTATION DID NOT CHANGE THE FILE"; fi
(cd /verif && ./check $3 --tier ${4:-quick} | grep -v "^  " | tail -6)
cp /tmp/.mut_backup.$$ "$f"; rm -f /tmp/.mut_backup.$$
git -C /repo status --short | grep -v _build
