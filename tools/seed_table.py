#!/usr/bin/env python3
"""Prints the markdown table of DESIGN.md section 10.5 from /verif/seeded/*/{meta.json,README.md,patch.diff}."""
import json, os, re, glob
VERIF = os.path.dirname(os.path.dirname(os.path.abspath(__file__)))
rows = []
for d in sorted(glob.glob(os.path.join(VERIF, "seeded", "*")), key=lambda x: (os.path.basename(x).split("-")[0], int(os.path.basename(x).split("-")[1]))):
    sid = os.path.basename(d)
    title = ""
    try:
        for l in open(os.path.join(d, "README.md")):
            if l.startswith("#"):
                title = re.sub(r"^#+\s*", "", l.strip())
                title = re.sub(r"^(C\d\d\s*)?(/\s*\d\s*)?(seeded defect|Seeded defect|defect)?\s*(C\d\d)?\s*[/#]?\s*\d?\s*[—:-]*\s*", "", title)
                break
    except OSError:
        pass
    files = sorted(set(re.findall(r"^\+\+\+ b/(\S+)", open(os.path.join(d, "patch.diff")).read(), re.M)))
    meta = {}
    try:
        meta = json.load(open(os.path.join(d, "meta.json")))
    except OSError:
        pass
    det = meta.get("detected_by", {})
    own = sid.split("-")[0]
    cell = []
    for c in sorted(det, key=lambda c: (c != own, c)):
        cell.append(", ".join(det[c]["rules"]) if det[c]["rules"] else c + " (analysis-broken)")
    rows.append("| %s | %s | %s | %s |" % (sid, title.replace("|", "/")[:150], ", ".join(os.path.basename(f) for f in files), "; ".join(cell) if cell else "**missed**"))
print("| seed | change | file | reported by (rule) |\n|---|---|---|---|")
print("\n".join(rows))
