#!/bin/bash
# development helper: confirm and import the three refactorings of one sub-agent round.  usage: import_benign_round.sh <PROP> <srcdir> <first-new-index>
P=$1; SRC=$2; BASE=$3
for k in 1 2 3; do
  [ -f $SRC/out/$k/patch.diff ] || { echo "$P-$k no patch"; continue; }
  BENIGN_SRC=$SRC BENIGN_AS=$((BASE+k-1)) /verif/tools/verify_benign.sh $P $k
done
git -C /repo worktree remove --force /tmp/vb_$P 2>/dev/null
