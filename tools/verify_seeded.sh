#!/bin/bash
# usage: verify_seeded.sh <PROP> <k>      (development helper, not a registered check)
# Confirms a sub-agent's seeded defect in a scratch worktree: patch applies, project builds, 126/126 tests pass,
# demo fails with the patch and passes without. Then imports it into /verif/seeded/<PROP>-<k>/.
set -u
P=$1; K=$2
SRC=${SEED_SRC:-/tmp/seed_$P}/out/$K   # round 2: SEED_SRC=/tmp/seed2_$P SEED_AS=<k+3>
W=/tmp/vw_$P
LOG=/tmp/vw_$P.$K.log
: > $LOG
if [ ! -d $W ]; then git -C /repo worktree add --detach $W HEAD >>$LOG 2>&1; fi
git -C $W checkout -q --detach $(git -C /repo rev-parse HEAD) >>$LOG 2>&1
git -C $W checkout -- . >>$LOG 2>&1
res() { echo "$P-$K $1"; }
git -C $W apply --check $SRC/patch.diff >>$LOG 2>&1 || { res "PATCH-DOES-NOT-APPLY"; exit 1; }
# unpatched demo
bash $SRC/run_demo.sh $W > /tmp/vw_$P.$K.unp 2>&1; tail -1 /tmp/vw_$P.$K.unp | grep -q "DEMO PASS" || { res "DEMO-NOT-PASSING-UNPATCHED"; exit 1; }
git -C $W apply $SRC/patch.diff >>$LOG 2>&1
if [ ! -d $W/_b ]; then cmake -G Ninja -S $W -B $W/_b >>$LOG 2>&1; fi
cmake --build $W/_b -j8 >>$LOG 2>&1 || { git -C $W checkout -- .; res "BUILD-FAILS"; exit 1; }
T=$(ctest --test-dir $W/_b -j8 --timeout 900 2>&1 | grep "tests passed" )
echo "$T" >>$LOG
echo "$T" | grep -q "100% tests passed, 0 tests failed out of 126" || { git -C $W checkout -- .; res "TESTS-FAIL: $T"; exit 1; }
bash $SRC/run_demo.sh $W > /tmp/vw_$P.$K.pat 2>&1; tail -1 /tmp/vw_$P.$K.pat | grep -q "DEMO FAIL" || { git -C $W checkout -- .; res "DEMO-NOT-FAILING-PATCHED"; exit 1; }
git -C $W checkout -- .
D=/verif/seeded/$P-${SEED_AS:-$K}
mkdir -p $D
cp $SRC/patch.diff $D/; cp $SRC/README.md $D/ 2>/dev/null
for f in $SRC/demo* $SRC/run_demo.sh $SRC/*.xml $SRC/*.vtk $SRC/*.cpp $SRC/*.sh $SRC/*.py; do [ -f "$f" ] && [ $(stat -c %s "$f") -lt 400000 ] && cp "$f" $D/; done 2>/dev/null
res "CONFIRMED"
