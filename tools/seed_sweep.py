#!/usr/bin/env python3
"""Development helper (not a registered check): runs the registered checks against every seeded defect in
/verif/seeded/*/patch.diff, in a scratch worktree of /repo (SC3D_REPO), and writes meta.json next to each patch.
usage: seed_sweep.py [ids...]"""
import json, os, subprocess, sys, re, glob, shutil
VERIF = os.path.dirname(os.path.dirname(os.path.abspath(__file__)))
W = os.environ.get("SWEEP_W", "/tmp/seedrun")
EV = W + "_evidence"
props = {json.loads(l)["id"]: json.loads(l) for l in open(os.path.join(VERIF, "properties.jsonl"))}
manifest = json.load(open(os.path.join(VERIF, "MANIFEST.json")))
registered = [c["property_id"] for c in manifest["checks"]]
extra = [a for a in os.environ.get("SWEEP_EXTRA", "").split(",") if a]
checks = registered + [e for e in extra if e not in registered]

def sh(cmd, **kw):
    return subprocess.run(cmd, shell=True, stdout=subprocess.PIPE, stderr=subprocess.STDOUT, text=True, **kw)

def main():
    ids = sys.argv[1:] or sorted(os.path.basename(d) for d in glob.glob(os.path.join(VERIF, "seeded", "*")) if os.path.exists(os.path.join(d, "patch.diff")))
    if not os.path.isdir(W):
        sh("git -C /repo worktree add --detach %s HEAD" % W)
    sh("git -C %s checkout -q --detach $(git -C /repo rev-parse HEAD); git -C %s checkout -- ." % (W, W))
    os.makedirs(EV, exist_ok=True)
    env = dict(os.environ, SC3D_REPO=W, SC3D_EVIDENCE_DIR=EV)
    for sid in ids:
        d = os.path.join(VERIF, "seeded", sid)
        prop = sid.split("-")[0]
        r = sh("git -C %s apply %s/patch.diff" % (W, d))
        if r.returncode != 0:
            print(sid, "PATCH DOES NOT APPLY", r.stdout[-300:])
            continue
        caught = {}
        order = [prop] + [c for c in checks if c != prop]
        # fast mode (SWEEP_FAST=1): a seed that an earlier sweep found reported is first re-run against the checks (and tiers) that
        # reported it; if they still do, the other checks are not run again
        prev = None
        if os.environ.get("SWEEP_FAST"):
            try:
                prev = json.load(open(os.path.join(d, "meta.json"))).get("detected_by") or None
            except (OSError, ValueError):
                prev = None
        if prev and any(v.get("rules") for v in prev.values()):
            for c, v in prev.items():
                if c not in checks or not v.get("rules"):
                    continue
                out = sh("cd %s && ./check %s --tier %s" % (VERIF, c, v.get("tier", "quick")), env=env).stdout
                rules = sorted(set(re.findall(r"rule=(\S+)", out)))
                if rules:
                    caught[c] = {"tier": v.get("tier", "quick"), "rules": rules, "analysis_broken": "ANALYSIS-BROKEN" in out}
            if any(v["rules"] for v in caught.values()):
                order = []
            else:
                caught = {}
        for c in order:
            if c not in checks:
                continue
            for tier in ("quick", "thorough"):
                out = sh("cd %s && ./check %s --tier %s" % (VERIF, c, tier), env=env).stdout
                rules = sorted(set(re.findall(r"rule=(\S+)", out)))
                broken = "ANALYSIS-BROKEN" in out
                if rules or broken:
                    caught[c] = {"tier": tier, "rules": rules, "analysis_broken": broken}
                    break
                if c != prop:
                    break     # other properties: quick tier only
        if not any(v["rules"] for v in caught.values()):
            # nothing reported in the default configuration: the other properties' thorough tier (all six configurations)
            for c in order[1:]:
                if c not in checks:
                    continue
                out = sh("cd %s && ./check %s --tier thorough" % (VERIF, c), env=env).stdout
                rules = sorted(set(re.findall(r"rule=(\S+)", out)))
                if rules:
                    caught[c] = {"tier": "thorough", "rules": rules, "analysis_broken": False}
                    break
        sh("git -C %s checkout -- ." % W)
        readme = ""
        try:
            readme = open(os.path.join(d, "README.md")).read()
        except OSError:
            pass
        meta = {
            "id": sid,
            "breaks_property": prop,
            "property_title": props[prop]["title"],
            "origin": "independent sub-agent given only the property text and a scratch worktree of /repo (nothing from /verif)",
            "needs_to_manifest": (re.search(r"(?is)(needs?|trigger|manifest)[^\n]*\n?(.{0,400})", readme).group(0)[:500] if re.search(r"(?i)(needs?|trigger|manifest)", readme) else "see README.md"),
            "confirmed_by_me": "tools/verify_seeded.sh %s %s: patch applies to /repo HEAD, project builds, ctest 126/126 with the patch, demo FAILS with the patch and PASSES without (scratch worktree)" % tuple(sid.split("-")),
            "detected_by": caught,
            "detected": bool(caught),
            "repo_head": sh("git -C /repo rev-parse --short HEAD").stdout.strip(),
        }
        json.dump(meta, open(os.path.join(d, "meta.json"), "w"), indent=1)
        print(sid, "->", {k: v["rules"] for k, v in caught.items()} or "MISSED")

if __name__ == "__main__":
    main()
