#!/bin/bash
# usage: verify_benign.sh <PROP> <k>      (development helper, not a registered check)
# Confirms a sub-agent's behaviour-preserving refactoring in a scratch worktree: patch applies, project builds, 126/126 tests
# pass. Then imports it into /verif/benign/<PROP>-<k>/.
set -u
P=$1; K=$2
SRC=${BENIGN_SRC:-/tmp/benign_$P}/out/$K
W=/tmp/vb_$P
LOG=/tmp/vb_$P.$K.log
: > $LOG
if [ ! -d $W ]; then git -C /repo worktree add --detach $W HEAD >>$LOG 2>&1; fi
git -C $W checkout -q --detach $(git -C /repo rev-parse HEAD) >>$LOG 2>&1
git -C $W checkout -- . >>$LOG 2>&1
res() { echo "$P-$K $1"; }
git -C $W apply $SRC/patch.diff >>$LOG 2>&1 || { res "PATCH-DOES-NOT-APPLY"; exit 1; }
if [ ! -d $W/_b ]; then cmake -G Ninja -S $W -B $W/_b >>$LOG 2>&1; fi
cmake --build $W/_b -j8 >>$LOG 2>&1 || { git -C $W checkout -- .; res "BUILD-FAILS"; exit 1; }
T=$(ctest --test-dir $W/_b -j8 --timeout 900 2>&1 | grep "tests passed" )
echo "$T" >>$LOG
git -C $W checkout -- .
echo "$T" | grep -q "100% tests passed, 0 tests failed out of 126" || { res "TESTS-FAIL: $T"; exit 1; }
D=/verif/benign/$P-${BENIGN_AS:-$K}
mkdir -p $D
cp $SRC/patch.diff $D/; cp $SRC/README.md $D/ 2>/dev/null
res "CONFIRMED"
