#!/usr/bin/env python3
"""Development helper: (re)writes section 10.5 of DESIGN.md (between the markers) from seeded/*/meta.json and
benign/*/result.json as left by the last sweeps."""
import json, os, re, glob, subprocess, collections
V = os.path.dirname(os.path.dirname(os.path.abspath(__file__)))
table = subprocess.run(["python3", os.path.join(V, "tools", "seed_table.py")], stdout=subprocess.PIPE, text=True).stdout
metas = [json.load(open(m)) for m in sorted(glob.glob(os.path.join(V, "seeded", "*", "meta.json")))]
n = len(metas)
by_rule = [m for m in metas if any(v["rules"] for v in m.get("detected_by", {}).values())]
only_broken = [m for m in metas if m.get("detected_by") and not any(v["rules"] for v in m["detected_by"].values())]
missed = [m for m in metas if not m.get("detected_by")]
own = [m for m in by_rule if any(v["rules"] for k, v in m["detected_by"].items() if k == m["breaks_property"])]
thorough = [m for m in by_rule if any(v.get("tier") == "thorough" and v["rules"] for v in m["detected_by"].values()) and not any(v.get("tier") == "quick" and v["rules"] for v in m["detected_by"].values())]
res = [json.load(open(r)) for r in sorted(glob.glob(os.path.join(V, "benign", "*", "result.json")))]
silent = [r for r in res if not r["alarms"]]
alarm = [r for r in res if any(a["rc"] == 1 for a in r["alarms"].values())]
broken = [r for r in res if r["alarms"] and not any(a["rc"] == 1 for a in r["alarms"].values())]
txt = []
txt.append("### 10.5 Independently seeded changes and behaviour-preserving refactorings: which check reports what\n")
txt.append("Both sets were written by sub-agents that were given only the text of one property and a scratch git worktree of `/repo`\n(nothing from `/verif`); I confirmed each myself before keeping it (`tools/verify_seeded.sh`: applies, builds, 126/126 tests\npass with it, its demonstration fails with it and passes without; `tools/verify_benign.sh`: applies, builds, 126/126). The\ntables are produced by `tools/seed_sweep.py` / `tools/benign_sweep.py`: every patch is applied to a scratch worktree and *every*\nregistered check is run against it (quick tier; the thorough tier too for the property the patch was written for).\n")
txt.append("**Seeded defects: %d.** Reported with a rule violation (exit 1) by at least one check: %d (by a rule of the property they were written against: %d; only in the thorough tier, i.e. in a non-default compile-time configuration: %d). Answered only with *analysis broken* (exit 2, no verdict): %d%s. Not detected: %d%s.\n" % (
    n, len(by_rule), len(own), len(thorough), len(only_broken), (" (" + ", ".join(m["id"] for m in only_broken) + ")") if only_broken else "", len(missed), (" (" + ", ".join(m["id"] for m in missed) + ")") if missed else ""))
txt.append("This is **not a blind detection rate**: the rounds of seeds were used to find gaps, and a rule written after a miss names the seed in 10.4. The honest blind figure is the one of the last round, taken before any rule was touched. Round 5 produced 54 seeds (three for each of 18 properties; C09 and C17 had their extra round earlier). Before any change 28 of the 54 were reported with a rule violation: 5/12 for C05, C13, C14, C16; 11/18 for C01, C02, C03, C06, C08, C10; 12/18 for C04, C07, C11, C12, C15, C20; 0/6 for C18, C19. The other 26 were silent or answered only with *no verdict*. Each miss was turned into a rule that states a necessary condition of the property in terms of the code (C01.split-worklist, C02.force-coverage / angle-range, C05.region-test, C08 coupling rules, C11.worklist-fresh, C12 'every face slot' / flip decision / unfiltered extremum, C13.normals-after-orientation / call-once-cache / ball-scale, C14.difference-form, C16.record-per-line / every cell compacted, C18.type-binding / weakened validation / loop bound, C19.rows-reach-file, C20.closed-box / query-fresh, ...), after which all 54 are reported. In round 4 two of twelve were missed at first (C09-8, C19-6). Round 6 confirmed this: 36 more seeds (three for each of C01, C02, C05, C08, C11, C12, C13, C14, C16, C18, C19, C20), of which 18 were reported before any change (8/18 in the first half, 10/18 in the second). The 18 misses again became rules: C01.rebase 'the renumbering runs on every compaction' (a skip guard is decided by linear integer arithmetic on the sizes), C02 range guards of the bending force, C05.distance-form, C08 id kinds of the pairs stored in coupling records / fresh-id counter not a copy / tail truncation, C11 flag-correlated counting, C12.area-sum over the whole list / C12.flood-fill-complete / C12.eigen-similarity (the Givens steps preserve the characteristic polynomial, a polynomial identity), C13.retry-catches / the Poisson distance test has no exemption, C14.mean-position, C16.local-ids-by-lookup / path-as-given-first, C18.wiring-order / dead sign checks / INF-as-branch, C19.writer-reentrant / header-row on emission traces, C20 const queries and the synthetic unit that instantiates every grid member; after them all 36 are reported. Round 7 (session 5; three seeds for each of C03, C04, C06, C07, C09, C10, C15, C17, the properties round 6 had left out): 15 of 24 reported before any change (9 by the property they were written against, 6 only by another property's check), one answered *no verdict* (C04-10), 8 silent. Seven of the 8 became rules - C03.group-owner, C06 'no break / return leaves the loops around the narrow phase', C20 'the voxel count is the ceiling itself' (reports C06-11), C15.work-shared (reports C06-12), exception matching through public bases only (C09-10), C09 'the mother is recorded for removal under the same facts as the daughters are appended', C10.index-validation, C17.what-message - and C04.removal now decides the erase-while-advancing loop of C04-10. C07-11 stays undetected: it replaces `std::cos(90*M_PI/180.0)` (6.1e-17) by the literal 0.0, which changes the outcome of `dot < threshold` only for a null normal - a value-level difference that no structural rule here states, and a rule that pinned the spelling of the constant would be a frozen-text check. The rules decide enumerated structural clauses, not the behaviour (10.4 *Not decided*), so a further round would again find gaps - at a rate of roughly one seed in two.\n")
txt.append("Seeds that remain undetected (if any are listed above) are outside what these rules decide; see the *Not decided* notes of 10.4.\n")
txt.append(table)
txt.append("\n**Behaviour-preserving refactorings: %d.** All checks silent (exit 0 for all twenty): %d. A false alarm (exit 1): %d%s. No verdict (exit 2, *analysis broken*) from at least one check and no alarm: %d:\n" % (
    len(res), len(silent), len(alarm), (" (" + ", ".join(r["id"] for r in alarm) + ")") if alarm else "", len(broken)))
for r in broken:
    for c, a in sorted(r["alarms"].items()):
        line = (a["lines"][0] if a["lines"] else "").replace("ANALYSIS-BROKEN ", "")
        txt.append("* %s: %s" % (r["id"], line[:260]))
txt.append("\nEvery false alarm found this way during development was removed by making the rule decide on values / facts instead of statement shapes (log in 10.3); where that was not possible in the time available the rule answers *no verdict* instead of guessing.\n")
body = "\n".join(txt)
p = os.path.join(V, "DESIGN.md")
s = open(p).read()
B, E = "<!-- 10.5:begin -->", "<!-- 10.5:end -->"
if B in s:
    s = s[:s.index(B)] + B + "\n" + body + "\n" + E + s[s.index(E) + len(E):]
else:
    anchor = "## Appendix A"
    s = s.replace(anchor, B + "\n" + body + "\n" + E + "\n\n" + anchor, 1)
open(p, "w").write(s)
print("seeds", n, "rule", len(by_rule), "broken-only", len(only_broken), "missed", len(missed), "| benign", len(res), "silent", len(silent), "alarm", len(alarm), "broken", len(broken))
