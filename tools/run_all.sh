#!/bin/bash
# development helper: run every check registered in MANIFEST.json (plus extra ids) on the unchanged tree; all must exit 0
T=${1:-quick}; shift
ids=$(python3 -c "import json;print(' '.join(c['property_id'] for c in json.load(open('/verif/MANIFEST.json'))['checks']))")
bad=0
for p in $ids "$@"; do
  out=$(cd /verif && ./check $p --tier $T 2>&1); rc=$?
  echo "$(echo "$out" | tail -1)  rc=$rc"
  [ $rc -ne 0 ] && { bad=1; echo "$out" | grep -E "^VIOLATION|^ANALYSIS|rule=" | head -5; }
done
exit $bad
