#!/bin/bash
# development helper: runs seed_sweep.py / benign_sweep.py over all ids in N parallel shards (each with its own scratch worktree)
# usage: sweep_par.sh seed|benign [N] [ids...]
kind=$1; N=${2:-6}; shift; shift
V=/verif
if [ $# -gt 0 ]; then ids="$@"; else
  dir=$([ $kind = seed ] && echo seeded || echo benign)
  ids=$(ls $V/$dir | sort)
fi
export SC3D_DEV_CACHE=${SC3D_DEV_CACHE:-/tmp/sc3dcache}; mkdir -p $SC3D_DEV_CACHE
i=0; for id in $ids; do echo $id >> /tmp/sweep_${kind}_shard_$((i % N)).lst; i=$((i+1)); done
for k in $(seq 0 $((N-1))); do
  [ -f /tmp/sweep_${kind}_shard_$k.lst ] || continue
  ( SWEEP_W=/tmp/${kind}run_$k python3 $V/tools/${kind}_sweep.py $(cat /tmp/sweep_${kind}_shard_$k.lst) > /tmp/sweep_${kind}_$k.log 2>&1
    git -C /repo worktree remove --force /tmp/${kind}run_$k; rm -rf /tmp/${kind}run_${k}_evidence ) &
done
wait
rm -f /tmp/sweep_${kind}_shard_*.lst
cat /tmp/sweep_${kind}_*.log | sort
find $SC3D_DEV_CACHE -maxdepth 1 -mmin +600 -exec rm -rf {} + 2>/dev/null
