#!/bin/sh
# Build /repo's current working tree WITHOUT -DSIMUCELL3D_VERIF in a scratch
# directory and run the repository's own test suite (126 tests).
set -e
B=$(mktemp -d "${TMPDIR:-/tmp}/sc3d_baseline.XXXXXX")
trap 'rm -rf "$B"' EXIT
cmake -G Ninja -S /repo -B "$B" -DCMAKE_BUILD_TYPE=Release >"$B.log" 2>&1 || { cat "$B.log"; rm -f "$B.log"; exit 2; }
cmake --build "$B" -j16 >>"$B.log" 2>&1 || { tail -50 "$B.log"; rm -f "$B.log"; exit 2; }
rm -f "$B.log"
ctest --test-dir "$B" -j8 --timeout 900
